package main

// cli-sim engine, family H (C04, C05, C12): fingerprint histories driven through the real command line path
// (pflag set, flags.WithFlags, run()) inside one synctest bubble per history. The simulator owns the clock,
// every file modification time, the schedule of Task's goroutines and the crash points ("process killed" =
// the invocation's goroutines are abandoned, only the directory tree survives into the next step).

import (
	"crypto/sha256"
	"fmt"
	"os"
	"os/signal"
	"path/filepath"
	"regexp"
	"sort"
	"strings"
	"syscall"
	"testing"
	"testing/synctest"
	"time"

	"github.com/spf13/pflag"

	"github.com/go-task/task/v3/errors"
	"github.com/go-task/task/v3/internal/flags"
	vs "github.com/go-task/task/v3/internal/verifsim"
)

func TestVerifSim(t *testing.T) {
	// run() registers a signal handler: initialise os/signal's runtime machinery outside any bubble
	// (its goroutine and channels must not belong to one)
	sigc := make(chan os.Signal, 1)
	signal.Notify(sigc, syscall.SIGUSR1)
	signal.Stop(sigc)
	switch os.Getenv("VERIF_FAMILY") {
	case "":
		t.Skip("VERIF_FAMILY not set")
	case "H":
		vs.WorkerMain(t, "cli-sim", "H", runH)
	default:
		t.Fatalf("unknown family %q", os.Getenv("VERIF_FAMILY"))
	}
}

// ---------------------------------------------------------------------------------------------------
// project

type hGlob struct {
	Pat     string
	Exclude bool
}

type hTask struct {
	ID        string // t0, t1, ...
	Name      string // may contain ':' / '-' (state file name collisions)
	Label     string
	Method    string // "", checksum, timestamp
	Sources   []hGlob
	Generates bool
	Status    bool
	Prompt    bool
	Dir       bool // dir: work/<id> (does not exist before the first real run)
	Inc       bool // the task lives in inc/Taskfile.yml, included as namespace "inc" (name inc:<id>)
	ShVar     bool // task-level dynamic variable (evaluated whenever the task is compiled, also by queries)
	Call      bool // one cmds entry calls helper task chk-<id>, whose precondition fails while ctl/failcall-<id> exists
	Dep       int  // -1 or index of the dependency
	SrcDep    bool // the dependency's generated file (whose content differs on every run of the dependency) is one of this task's sources
	Pre       bool // precondition: fails while ctl/pre-<id> exists
	Gen2      bool // a second generates entry (out/<id>.gen2): every entry has to exist
	// a parametrised task: one Taskfile task "tK" with label 'plab-{{.MOD}}' and sources 'src/{{.MOD}}.txt', always
	// called with MOD=a or MOD=b; the model treats the two parametrisations as two tasks (IDs tK-a, tK-b)
	Param    string // "", "a", "b"
	NoRender bool   // the second parametrisation: the Taskfile task is rendered for the first one
	Enum     bool   // requires: LVL in ['1', '2']; every invocation that names the task passes LVL=<something> on the command line
	IgnAll   bool   // every command of the task has ignore_error: true (a failing command does not fail the task; an interrupted one does)
}

type hProj struct {
	FileMethod string
	Tasks      []*hTask
	Symlink    bool // src/link.txt is a symbolic link to other/z.txt (a source for every glob that matches src/*.txt)
}

// hLong pads labels beyond any plausible file-name budget: records of different tasks must stay apart however
// long their names are
const hLong = "-padding-0123456789-0123456789-0123456789-0123456789-0123456789-"

var hGlobPool = [][]hGlob{
	{{"src/*.txt", false}},
	{{"src/**/*.txt", false}},
	{{"src/a.txt", false}, {"src/b.txt", false}},
	{{"src/**/*.txt", false}, {"src/skip*.txt", true}},
	{{"src/*.txt", false}, {"src/skip*.txt", true}, {"src/skip1.txt", false}},
	{{"src/skip*.txt", true}, {"src/*.txt", false}},
	{{"src/**/*.txt", false}, {"src/sub/*.txt", true}},
	{{"src/?.txt", false}},
}

// (src/A.txt and src/a.txt differ only in case: the order in which matched files are fingerprinted is a total order)
var hInitialFiles = []string{"src/a.txt", "src/b.txt", "src/skip1.txt", "src/sub/c.txt", "src/sub/deep/d.txt", "src/A.txt", "other/z.txt"}

func (t *hTask) method(p *hProj) string {
	if t.Method != "" {
		return t.Method
	}
	if p.FileMethod != "" {
		return p.FileMethod
	}
	return "checksum"
}

func (t *hTask) stateName() string {
	if t.Label != "" {
		return t.Label
	}
	return t.Name
}

func genHProj(ch *vs.Choices, prop string) *hProj {
	p := &hProj{}
	if ch.Bool(1, 3) {
		p.FileMethod = []string{"checksum", "timestamp"}[ch.Draw(2)]
	}
	p.Symlink = ch.Bool(1, 3)
	n := 1 + ch.Draw(3)
	for i := 0; i < n; i++ {
		t := &hTask{ID: fmt.Sprintf("t%d", i), Name: fmt.Sprintf("t%d", i), Dep: -1}
		if ch.Bool(1, 2) {
			t.Method = []string{"checksum", "timestamp"}[ch.Draw(2)]
		}
		t.Sources = hGlobPool[ch.Draw(len(hGlobPool))]
		t.Generates = ch.Bool(1, 2)
		t.Status = ch.Bool(1, 4)
		t.Prompt = ch.Bool(1, 5)
		t.Dir = ch.Bool(1, 5)
		t.Call = ch.Bool(1, 3) || (prop == "C12" && ch.Bool(1, 2))
		t.ShVar = ch.Bool(1, 3)
		if ch.Bool(1, 4) {
			t.Inc = true
			t.Name = "inc:" + t.ID
			t.Call = false // the helper lives in the root file
		}
		if i > 0 && ch.Bool(1, 3) {
			t.Dep = ch.Draw(i)
		}
		if ch.Bool(1, 6) {
			t.Label = "lab-" + t.ID
			if ch.Bool(1, 2) {
				t.Label = "lab" + hLong + t.ID
			}
		}
		t.Pre = (ch.Bool(1, 4) || (prop == "C13" && ch.Bool(2, 3))) && !t.Dir // (a precondition runs in the task's dir, which must exist)
		t.SrcDep = ch.Bool(1, 2)
		t.Gen2 = t.Generates && ch.Bool(1, 3)
		t.IgnAll = ch.Bool(1, 6)
		t.Enum = prop == "C13" && ch.Bool(1, 3)
		p.Tasks = append(p.Tasks, t)
	}
	for _, t := range p.Tasks {
		if t.Dep >= 0 {
			p.Tasks[t.Dep].Enum = false // (a dependency is called without command-line variables)
		}
	}
	for _, t := range p.Tasks {
		if t.Dep >= 0 && t.Inc && !p.Tasks[t.Dep].Inc {
			t.Dep = -1
		}
		if t.SrcDep && (t.Dep < 0 || !p.Tasks[t.Dep].Generates) {
			t.SrcDep = false
		}
		if t.SrcDep {
			t.Sources = append(append([]hGlob{}, t.Sources...), hGlob{Pat: "out/" + p.Tasks[t.Dep].ID + ".gen"})
		}
	}
	// state-file name collisions: "x:y" and "x-y", or two tasks with the same label
	if n >= 2 && ch.Bool(1, 5) && !p.Tasks[0].Inc && !p.Tasks[1].Inc {
		p.Tasks[0].Name, p.Tasks[1].Name = "col:x", "col-x"
		p.Tasks[0].Label, p.Tasks[1].Label = "", ""
		p.Tasks[1].Sources = p.Tasks[0].Sources
		p.Tasks[1].SrcDep = false
	} else if t0 := p.Tasks[0]; !t0.Inc && ch.Bool(1, 4) {
		// parametrised task (templated label and sources): the two parametrisations keep separate records
		for _, t := range p.Tasks {
			if t.Dep == 0 {
				if t.SrcDep {
					t.Sources = t.Sources[:len(t.Sources)-1]
				}
				t.Dep, t.SrcDep = -1, false
			}
		}
		plab := "plab-"
		if ch.Bool(1, 2) {
			plab = "plab" + hLong
		}
		t0.Param, t0.ID, t0.Label, t0.Dir, t0.Call, t0.Dep, t0.SrcDep = "a", t0.ID+"-a", plab+"a", false, false, -1, false
		t0.Sources = []hGlob{{Pat: "src/a.txt"}}
		tb := *t0
		tb.Param, tb.ID, tb.Label, tb.NoRender = "b", strings.TrimSuffix(t0.ID, "-a")+"-b", plab+"b", true
		tb.Sources = []hGlob{{Pat: "src/b.txt"}}
		p.Tasks = append(p.Tasks, &tb)
	}
	return p
}

// Files renders the project: the root Taskfile and, if some tasks live there, inc/Taskfile.yml.
func (p *hProj) Files() map[string]string {
	hasInc := false
	for _, t := range p.Tasks {
		if t.Inc {
			hasInc = true
		}
	}
	var sb strings.Builder
	sb.WriteString("version: '3'\nsilent: true\n")
	if p.FileMethod != "" {
		fmt.Fprintf(&sb, "method: %s\n", p.FileMethod)
	}
	if hasInc {
		sb.WriteString("includes:\n  inc: ./inc\n")
	}
	sb.WriteString("tasks:\n")
	for _, t := range p.Tasks {
		if !t.Inc {
			p.renderTask(&sb, t)
		}
	}
	for _, t := range p.Tasks {
		if t.Call {
			fmt.Fprintf(&sb, "  chk-%s:\n    desc: guarded helper\n    preconditions:\n      - sh: test ! -f ctl/failcall-%s\n        msg: helper refused\n", t.ID, t.ID)
		}
	}
	// helpers: a task that always fails and wrappers that run a fingerprinted task next to it
	sb.WriteString("  boom:\n    desc: always fails\n    cmds:\n      - exit 9\n")
	for _, t := range p.Tasks {
		if t.Param != "" {
			fmt.Fprintf(&sb, "  both-%s:\n    desc: wrapper\n    deps:\n      - task: %s\n        vars: {MOD: %s}\n      - boom\n", t.ID, yqH(t.Name), t.Param)
			continue
		}
		if t.Enum {
			fmt.Fprintf(&sb, "  both-%s:\n    desc: wrapper\n    deps:\n      - task: %s\n        vars: {LVL: '1'}\n      - boom\n", t.ID, yqH(t.Name))
			continue
		}
		fmt.Fprintf(&sb, "  both-%s:\n    desc: wrapper\n    deps: [%s, boom]\n", t.ID, yqH(t.Name))
	}
	m := map[string]string{"Taskfile.yml": sb.String()}
	if hasInc {
		var ib strings.Builder
		ib.WriteString("version: '3'\ntasks:\n")
		for _, t := range p.Tasks {
			if t.Inc {
				p.renderTask(&ib, t)
			}
		}
		m["inc/Taskfile.yml"] = ib.String()
	}
	return m
}

func (p *hProj) YAML() string {
	f := p.Files()
	s := f["Taskfile.yml"]
	if inc, ok := f["inc/Taskfile.yml"]; ok {
		s += "--- inc/Taskfile.yml\n" + inc
	}
	return s
}

func (p *hProj) renderTask(sb *strings.Builder, t *hTask) {
	if t.NoRender {
		return
	}
	key := t.Name
	id := t.ID // as it appears in the Taskfile
	if t.Param != "" {
		id = strings.TrimSuffix(t.ID, "-"+t.Param) + "-{{.MOD}}"
	}
	if t.Inc {
		key = t.ID // local name inside the included file; callable as inc:<id>
	}
	fmt.Fprintf(sb, "  %s:\n    desc: task %s\n", yqH(key), t.Name)
	if t.Label != "" {
		if t.Param != "" {
			fmt.Fprintf(sb, "    label: '%s{{.MOD}}'\n", strings.TrimSuffix(t.Label, t.Param))
		} else {
			fmt.Fprintf(sb, "    label: %s\n", t.Label)
		}
	}
	if t.Method != "" {
		fmt.Fprintf(sb, "    method: %s\n", t.Method)
	}
	if t.Prompt {
		fmt.Fprintf(sb, "    prompt: PROMPT-%s\n", id)
	}
	pre := ""
	if t.Dir {
		// the task runs in its own (initially missing) directory; everything is addressed from the root
		fmt.Fprintf(sb, "    dir: work/%s\n", id)
		pre = "{{.ROOT_DIR}}/"
	}
	if t.ShVar {
		fmt.Fprintf(sb, "    vars:\n      SV:\n        sh: echo sv-%s\n", id)
	}
	if t.Dep >= 0 {
		d := p.Tasks[t.Dep]
		dn := d.Name
		if t.Inc && d.Inc {
			dn = d.ID
		}
		fmt.Fprintf(sb, "    deps: [%s]\n", yqH(dn))
	}
	sb.WriteString("    sources:\n")
	srcs := t.Sources
	if t.Param != "" {
		srcs = []hGlob{{Pat: "src/{{.MOD}}.txt"}}
	}
	for _, g := range srcs {
		if g.Exclude {
			fmt.Fprintf(sb, "      - exclude: %s\n", yqH(pre+g.Pat))
		} else {
			fmt.Fprintf(sb, "      - %s\n", yqH(pre+g.Pat))
		}
	}
	if t.Generates {
		fmt.Fprintf(sb, "    generates:\n      - %s\n", yqH(pre+"out/"+id+".gen"))
		if t.Gen2 {
			fmt.Fprintf(sb, "      - %s\n", yqH(pre+"out/"+id+".gen2"))
		}
	}
	if t.Status {
		fmt.Fprintf(sb, "    status:\n      - %s\n", yqH("test -f "+pre+"ctl/status-"+id))
	}
	if t.Enum {
		sb.WriteString("    requires:\n      vars:\n        - name: LVL\n          enum: ['1', '2']\n")
	}
	if t.Pre {
		fmt.Fprintf(sb, "    preconditions:\n      - sh: %s\n        msg: precondition of %s refused\n", yqH("test ! -f "+pre+"ctl/pre-"+id), id)
	}
	sb.WriteString("    cmds:\n")
	sh := func(text string) {
		if t.IgnAll {
			fmt.Fprintf(sb, "      - cmd: %s\n        ignore_error: true\n", yqH(text))
		} else {
			fmt.Fprintf(sb, "      - %s\n", yqH(text))
		}
	}
	sh("echo b:" + id + " >> " + pre + "trace.log")
	sh("test ! -f " + pre + "ctl/fail-" + id + "-1")
	if t.Call {
		fmt.Fprintf(sb, "      - task: chk-%s\n", id)
	}
	if t.Generates {
		// the generated content differs on every run (number of trace lines so far; shell builtins only)
		sh("n=0; while read l; do n=$((n+1)); done < " + pre + "trace.log; echo generated-$n > " + pre + "out/" + id + ".gen")
	}
	if t.Gen2 {
		sh("echo second > " + pre + "out/" + id + ".gen2")
	}
	sh("test ! -f " + pre + "ctl/fail-" + id + "-2")
	sh("echo e:" + id + " >> " + pre + "trace.log")
}

func yqH(s string) string { return "'" + strings.ReplaceAll(s, "'", "''") + "'" }

// ---------------------------------------------------------------------------------------------------
// harness-side view of the tree: independent glob matcher

func globToRe(pat string) *regexp.Regexp {
	var sb strings.Builder
	sb.WriteString("^")
	for i := 0; i < len(pat); i++ {
		switch {
		case strings.HasPrefix(pat[i:], "**/"):
			sb.WriteString("(.*/)?")
			i += 2
		case pat[i] == '*':
			sb.WriteString("[^/]*")
		case pat[i] == '?':
			sb.WriteString("[^/]")
		default:
			sb.WriteString(regexp.QuoteMeta(string(pat[i])))
		}
	}
	sb.WriteString("$")
	return regexp.MustCompile(sb.String())
}

func listFiles(root string) []string {
	var out []string
	_ = filepath.Walk(root, func(p string, info os.FileInfo, err error) error {
		if err != nil || info.IsDir() {
			return nil
		}
		rel, _ := filepath.Rel(root, p)
		out = append(out, rel)
		return nil
	})
	sort.Strings(out)
	return out
}

func matchSources(root string, globs []hGlob) []string {
	files := listFiles(root)
	in := map[string]bool{}
	for _, g := range globs {
		re := globToRe(g.Pat)
		for _, f := range files {
			if re.MatchString(f) {
				in[f] = !g.Exclude
			}
		}
	}
	var out []string
	for _, f := range files {
		if in[f] {
			out = append(out, f)
		}
	}
	return out
}

// fingerprint as the property defines it: names+contents (checksum) / names+mtimes (timestamp)
func modelFP(root string, t *hTask, method string) string {
	var sb strings.Builder
	for _, f := range matchSources(root, t.Sources) {
		full := filepath.Join(root, f)
		if method == "timestamp" {
			st, err := os.Stat(full)
			if err == nil {
				fmt.Fprintf(&sb, "%s@%d;", f, st.ModTime().UnixNano())
			}
		} else {
			b, _ := os.ReadFile(full)
			fmt.Fprintf(&sb, "%s=%x;", filepath.Base(f), sha256.Sum256(b))
		}
	}
	return sb.String()
}

type treeEntry struct {
	Size  int64
	Hash  string
	Mtime int64
	Dir   bool
}

func snapshotTree(root string) map[string]treeEntry {
	m := map[string]treeEntry{}
	_ = filepath.Walk(root, func(p string, info os.FileInfo, err error) error {
		if err != nil {
			return nil
		}
		rel, _ := filepath.Rel(root, p)
		if rel == "." {
			return nil
		}
		if info.IsDir() {
			m[rel] = treeEntry{Dir: true}
			return nil
		}
		b, _ := os.ReadFile(p)
		m[rel] = treeEntry{Size: info.Size(), Hash: fmt.Sprintf("%x", sha256.Sum256(b))[:16], Mtime: info.ModTime().UnixNano()}
		return nil
	})
	return m
}

func diffTrees(a, b map[string]treeEntry) []string {
	var out []string
	keys := map[string]bool{}
	for k := range a {
		keys[k] = true
	}
	for k := range b {
		keys[k] = true
	}
	var ks []string
	for k := range keys {
		ks = append(ks, k)
	}
	sort.Strings(ks)
	for _, k := range ks {
		x, okA := a[k]
		y, okB := b[k]
		switch {
		case !okA:
			out = append(out, "created "+k)
		case !okB:
			out = append(out, "deleted "+k)
		case x.Dir != y.Dir || x.Hash != y.Hash || x.Size != y.Size:
			out = append(out, "modified "+k)
		case x.Mtime != y.Mtime:
			out = append(out, "touched "+k)
		}
	}
	return out
}

// restamp gives every file the simulated time if its mtime is a kernel timestamp (written by Task during the step).
func restamp(root string, now time.Time) {
	limit := now.Add(24 * time.Hour * 365)
	_ = filepath.Walk(root, func(p string, info os.FileInfo, err error) error {
		if err != nil {
			return nil
		}
		if info.Mode()&os.ModeSymlink != 0 {
			return nil // (Chtimes would follow the link and restamp its target)
		}
		if info.ModTime().After(limit) {
			_ = os.Chtimes(p, now, now)
		}
		return nil
	})
}

// ---------------------------------------------------------------------------------------------------
// steps

type hStep struct {
	Kind   string // op:<name>, run, run-yes, run-force, both, dry, status, list, list-all, list-json, list-all-json, list-json-nostatus, summary, crash-cmd, crash-fp
	Task   int
	File   string
	New    string
	Fail   int // for op:fail
	CrashN int
	Adv    time.Duration
	Lvl    string // value of LVL for tasks with an enum requirement
}

func genHistory(ch *vs.Choices, p *hProj, prop, tier string) []hStep {
	n := 3 + ch.Draw(6)
	if tier == "thorough" {
		n = 3 + ch.Draw(10)
	}
	var out []hStep
	weights := map[string][]string{
		"C04": {"run", "run", "run", "run-yes", "op:fail", "op:failcall", "op:clearfail", "both", "crash-cmd", "crash-cmd", "crash-fp", "dry", "status", "list-json", "op:edit", "op:touch", "run-force", "op:delgen", "op:prefail"},
		"C05": {"run", "run", "run", "run-yes", "op:edit", "op:append", "op:touch", "op:add", "op:remove", "op:rename", "op:delgen", "op:status", "run-force", "op:edit-unmatched", "op:fail", "op:clearfail", "op:delgen", "op:delgen", "op:prefail"},
		"C13": {"run", "run", "run", "run-yes", "both", "dry", "op:prefail", "op:prefail", "op:clearfail", "op:edit", "op:touch", "op:delgen", "op:fail"},
		"C12": {"run", "run-yes", "dry", "status", "list", "list-all", "list-json", "list-all-json", "list-json-nostatus", "summary", "op:edit", "op:edit", "op:fail", "op:failcall", "op:failcall", "op:clearfail", "op:delgen", "dry", "dry", "status", "dry-force", "dry-force"},
	}[prop]
	advs := []time.Duration{time.Second, time.Second, 2 * time.Second, time.Minute, time.Hour, 48 * time.Hour, 20 * time.Millisecond, 300 * time.Millisecond}
	// histories dwell on a task: a step concerns the task of the previous step two times out of three, and half
	// of the histories begin by running their first task (so that there is a recorded fingerprint to get wrong)
	startClean := ch.Bool(1, 2)
	prevTask := -1
	// fault-then-recovery: two times out of three, arming a fault (failing command, refusing helper, failing
	// precondition) is followed by an invocation that meets it, the fault being cleared, and one more invocation
	var queue []hStep
	for i := 0; i < n || len(queue) > 0; i++ {
		s := hStep{Kind: weights[ch.Draw(len(weights))], Task: ch.Draw(len(p.Tasks)), Adv: advs[ch.Draw(len(advs))]}
		if prevTask >= 0 && ch.Bool(2, 3) {
			s.Task = prevTask
		}
		if i == 0 && startClean {
			s.Kind = "run-yes"
		}
		if len(queue) > 0 {
			s.Kind, s.Task = queue[0].Kind, queue[0].Task
			queue = queue[1:]
		} else if (s.Kind == "op:fail" || s.Kind == "op:failcall" || s.Kind == "op:prefail") && prop != "C12" && ch.Bool(2, 3) {
			meet := []string{"run", "run-yes", "both", "run"}[ch.Draw(4)]
			queue = []hStep{{Kind: meet, Task: s.Task}, {Kind: "op:clearfail", Task: s.Task}, {Kind: "run-yes", Task: s.Task}}
		}
		prevTask = s.Task
		s.Lvl = []string{"1", "2", "1", "2", "3", "true", "02", "x"}[ch.Draw(8)]
		switch s.Kind {
		case "op:edit", "op:append", "op:touch", "op:remove", "op:rename":
			s.File = hInitialFiles[ch.Draw(len(hInitialFiles)-1)]
			s.New = fmt.Sprintf("src/r%d.txt", i)
		case "op:add":
			s.File = []string{"src/n%d.txt", "src/sub/n%d.txt", "src/skip9%d.txt", "other/n%d.txt"}[ch.Draw(4)]
			s.File = fmt.Sprintf(s.File, i)
		case "op:edit-unmatched":
			s.File = "other/z.txt"
		case "op:fail", "op:delgen":
			s.Fail = 1 + ch.Draw(2)
		case "crash-cmd":
			s.CrashN = 1 + ch.Draw(6)
		case "crash-fp":
			s.CrashN = 1 + ch.Draw(40)
		}
		out = append(out, s)
	}
	return out
}

func (s hStep) String(p *hProj) string {
	t := p.Tasks[s.Task]
	switch {
	case strings.HasPrefix(s.Kind, "op:"):
		switch s.Kind {
		case "op:rename":
			return fmt.Sprintf("+%v %s %s -> %s", s.Adv, s.Kind, s.File, s.New)
		case "op:fail":
			return fmt.Sprintf("+%v %s %s cmd %d", s.Adv, s.Kind, t.ID, s.Fail)
		case "op:delgen":
			return fmt.Sprintf("+%v %s %s #%d", s.Adv, s.Kind, t.ID, s.Fail)
		case "op:clearfail", "op:status", "op:failcall", "op:prefail":
			return fmt.Sprintf("+%v %s %s", s.Adv, s.Kind, t.ID)
		}
		return fmt.Sprintf("+%v %s %s", s.Adv, s.Kind, s.File)
	case strings.HasPrefix(s.Kind, "crash"):
		return fmt.Sprintf("+%v task %s   # %s n=%d", s.Adv, t.Name, s.Kind, s.CrashN)
	}
	return fmt.Sprintf("+%v %s", s.Adv, strings.Join(s.argv(p, "$D"), " "))
}

func (s hStep) argv(p *hProj, dir string) []string {
	a := s.argv0(p, dir)
	if t := p.Tasks[s.Task]; t.Param != "" && s.Kind != "both" && !strings.HasPrefix(s.Kind, "list") {
		a = append(a, "MOD="+t.Param)
	}
	if t := p.Tasks[s.Task]; t.Enum && s.Kind != "both" && !strings.HasPrefix(s.Kind, "list") {
		a = append(a, "LVL="+s.Lvl)
	}
	return a
}

func (s hStep) argv0(p *hProj, dir string) []string {
	t := p.Tasks[s.Task]
	a := []string{"-d", dir}
	switch s.Kind {
	case "run", "crash-cmd", "crash-fp":
		a = append(a, t.Name)
	case "run-yes":
		a = append(a, "--yes", t.Name)
	case "run-force":
		a = append(a, "--force", "--yes", t.Name)
	case "both":
		a = append(a, "--yes", "both-"+t.ID)
	case "dry":
		a = append(a, "--dry", t.Name)
	case "dry-force":
		a = append(a, "--dry", "--force", "--yes", t.Name)
	case "status":
		a = append(a, "--status", t.Name)
	case "list":
		a = append(a, "--list")
	case "list-all":
		a = append(a, "--list-all")
	case "list-json":
		a = append(a, "--list", "--json")
	case "list-all-json":
		a = append(a, "--list-all", "--json")
	case "list-json-nostatus":
		a = append(a, "--list", "--json", "--no-status")
	case "summary":
		a = append(a, "--summary", t.Name)
	}
	return a
}

func isQuery(kind string) bool {
	switch kind {
	case "dry", "dry-force", "status", "list", "list-all", "list-json", "list-all-json", "list-json-nostatus", "summary":
		return true
	}
	return false
}

// ---------------------------------------------------------------------------------------------------
// invoking the real CLI path

func resetFlags(argv []string) error {
	pflag.CommandLine.VisitAll(func(f *pflag.Flag) {
		_ = f.Value.Set(f.DefValue)
		f.Changed = false
	})
	pflag.CommandLine.Init("task", pflag.ContinueOnError)
	pflag.CommandLine.SetOutput(os.Stderr)
	return pflag.CommandLine.Parse(argv)
}

func mapExit(err error) int {
	if err == nil {
		return 0
	}
	if e, ok := err.(*errors.TaskRunError); ok && flags.ExitCode {
		return e.TaskExitCode()
	}
	if e, ok := err.(errors.TaskError); ok {
		return e.Code()
	}
	return errors.CodeUnknown
}

var hOpenFiles []*os.File

type hInvoke struct {
	outcome  vs.Outcome
	err      error
	exit     int
	parseErr error
}

func invoke(sim *vs.Sim, gid string, argv []string, logDir string) *hInvoke {
	r := &hInvoke{}
	outF, _ := os.Create(filepath.Join(logDir, gid+".out"))
	errF, _ := os.Create(filepath.Join(logDir, gid+".err"))
	inF, _ := os.Open(os.DevNull)
	stdinPath := filepath.Join(logDir, gid+".in")
	_ = os.WriteFile(stdinPath, nil, 0o644)
	if f, err := os.Open(stdinPath); err == nil {
		inF.Close()
		inF = f
	}
	hOpenFiles = append(hOpenFiles, outF, errF, inF)
	root := sim.Go(gid, func() {
		oldOut, oldErr, oldIn := os.Stdout, os.Stderr, os.Stdin
		os.Stdout, os.Stderr, os.Stdin = outF, errF, inF
		defer func() { os.Stdout, os.Stderr, os.Stdin = oldOut, oldErr, oldIn }()
		if err := resetFlags(argv); err != nil {
			r.parseErr = err
			return
		}
		r.err = run()
		r.exit = mapExit(r.err)
	})
	r.outcome = sim.Drive(root)
	if r.outcome != vs.Finished {
		// the goroutine will never restore the std files
		// (os.Stdout etc. are swapped again by the next invocation)
	}
	return r
}

// ---------------------------------------------------------------------------------------------------
// H-model

var hNormRe = regexp.MustCompile(`[^A-Za-z0-9]`)

// sharesStateFile: does another task of the project map to the same fingerprint state file name
func sharesStateFile(p *hProj, t *hTask) bool {
	for _, o := range p.Tasks {
		if o == t {
			continue
		}
		if hNormRe.ReplaceAllString(o.Name, "-") == hNormRe.ReplaceAllString(t.Name, "-") && o.method(p) == "timestamp" && t.method(p) == "timestamp" {
			return true
		}
		if hNormRe.ReplaceAllString(o.stateName(), "-") == hNormRe.ReplaceAllString(t.stateName(), "-") && o.method(p) == "checksum" && t.method(p) == "checksum" {
			return true
		}
	}
	return false
}

type hState struct {
	cleanAt      time.Time // simulated time of the last successful attempt
	lastOKForced bool
	changes      map[string]bool // kinds of source changes since the last successful attempt
	clean        bool
	fp           string // fingerprint (as the property defines it) at the last successful attempt
	why          string // why not clean: never_ran, failed_cmd, prompt_declined, crashed, cancelled
	everRan      bool
	// the last invocation that reached the task was the wrapper next to the always-failing sibling and the task's
	// commands did not run: its attempt may have been cancelled part-way (e.g. during its status check), and a
	// cancelled attempt is allowed to forget the record -- the next run may execute the commands or skip them
	afterCancel bool
}

var hRunCounter int

// runH: one generated project and history -- or, in the crash-point enumeration mode of C04, one history
// re-executed once per crash point of one of its invocations (k-th command boundary / k-th yield inside the
// fingerprint code, k = 1, 2, ... until the trigger no longer fires).
func runH(t *testing.T, ch *vs.Choices, prop, tier string, render bool) *vs.RunOut {
	p := genHProj(ch, prop)
	hist := genHistory(ch, p, prop, tier)
	if prop == "C04" && ch.Bool(1, 4) {
		ci := -1
		for i, s := range hist {
			if strings.HasPrefix(s.Kind, "crash") {
				ci = i
				break
			}
		}
		if ci < 0 {
			for i, s := range hist {
				if s.Kind == "run" || s.Kind == "run-yes" {
					hist[i].Kind = []string{"crash-cmd", "crash-fp"}[ch.Draw(2)]
					ci = i
					break
				}
			}
		}
		if ci >= 0 {
			maxN := 6
			if tier == "thorough" {
				maxN = 60
			}
			var agg *vs.RunOut
			for n := 1; n <= maxN; n++ {
				hist[ci].CrashN = n
				vs.Tick()
				o := runHOne(t, ch, prop, render, p, hist)
				fired := o.Reach["fault:crash@cmd"]+o.Reach["fault:crash@fingerprint"] > 0
				if fired {
					o.Hit("fault_enumeration:crash_point")
				}
				if agg == nil {
					agg = o
				} else {
					agg.Steps += o.Steps
					agg.Hash = agg.Hash*1099511628211 ^ o.Hash
					for k, v := range o.Reach {
						agg.Reach[k] += v
					}
					agg.Foreign = append(agg.Foreign, o.Foreign...)
					if len(o.Violations) > 0 && len(agg.Violations) == 0 {
						agg.Violations, agg.Rendered = o.Violations, o.Rendered
					}
					if o.HarnessError != "" {
						agg.HarnessError = o.HarnessError
					}
					if o.Inconclusive != "" {
						agg.Inconclusive = o.Inconclusive
					}
				}
				if !fired {
					agg.Hit("fault_enumeration:histories_exhausted")
					break
				}
			}
			return agg
		}
	}
	return runHOne(t, ch, prop, render, p, hist)
}

func runHOne(t *testing.T, ch *vs.Choices, prop string, render bool, p *hProj, hist []hStep) *vs.RunOut {
	out := &vs.RunOut{Reach: map[string]int{}}
	yaml := p.YAML()
	var hs []string
	for _, s := range hist {
		hs = append(hs, s.String(p))
	}
	out.Shape = vs.HashString(yaml + strings.Join(hs, "\n"))
	base := vs.Cfg("VERIF_WORKROOT")
	if base == "" {
		base = os.TempDir()
	}
	hRunCounter++
	top := filepath.Join(base, fmt.Sprintf("verif-h-%d-%d", os.Getpid(), hRunCounter))
	_ = os.RemoveAll(top)
	dir := filepath.Join(top, "proj")
	logDir := filepath.Join(top, "logs")
	defer os.RemoveAll(top)
	for _, d := range []string{dir, logDir, filepath.Join(dir, "out"), filepath.Join(dir, "ctl")} {
		if err := os.MkdirAll(d, 0o755); err != nil {
			out.HarnessError = err.Error()
			return out
		}
	}
	realOut, realErr, realIn := os.Stdout, os.Stderr, os.Stdin
	defer func() {
		os.Stdout, os.Stderr, os.Stdin = realOut, realErr, realIn
		for _, f := range hOpenFiles {
			f.Close()
		}
		hOpenFiles = nil
	}()
	var trace []string
	var log []string
	violate := func(prop_, sig, format string, a ...any) {
		if prop_ == prop {
			out.Violate(prop_, sig, format, a...)
		} else {
			out.Foreign = append(out.Foreign, vs.Violation{Prop: prop_, Sig: sig, Msg: fmt.Sprintf(format, a...)})
		}
	}
	func() {
		defer func() {
			if r := recover(); r != nil {
				if !strings.Contains(fmt.Sprint(r), "deadlock") {
					panic(r)
				}
			}
		}()
		synctest.Test(t, func(t *testing.T) {
			sim := vs.NewSim(ch)
			sim.Strip = dir
			sim.KeepLog = render
			sim.Strategy = vs.NewStrategy(ch, []string{"random", "sticky", "pct"})
			out.Strategy = sim.Strategy.Name()
			force := []string{"RunTask: if err := e.runCommand(ctx, t, call, i)", "internal/fingerprint/"}
			switch ch.Draw(3) {
			case 0:
				sim.SetMaskByFile(0, 1, 0, 1, force)
			case 1:
				sim.SetMaskByFile(1, 2, 1, 8, force)
			case 2:
				sim.SetMaskByFile(1, 1, 1, 3, force)
			}
			vs.S = sim
			defer func() { vs.S = nil }()
			start := time.Now()
			now := func() time.Time { return time.Now() }
			stamp := func(rel string) { _ = os.Chtimes(filepath.Join(dir, rel), now(), now()) }
			write := func(rel, content string) {
				full := filepath.Join(dir, rel)
				_ = os.MkdirAll(filepath.Dir(full), 0o755)
				_ = os.WriteFile(full, []byte(content), 0o644)
				stamp(rel)
			}
			// initial tree at simulated time 0
			for name, content := range p.Files() {
				write(name, content)
			}
			for _, f := range hInitialFiles {
				write(f, "content of "+f+"\n")
			}
			if p.Symlink {
				_ = os.Symlink("../other/z.txt", filepath.Join(dir, "src", "link.txt"))
			}
			write("trace.log", "")
			for _, tk := range p.Tasks {
				if tk.Status {
					write("ctl/status-"+tk.ID, "ok")
				}
			}
			restamp(dir, now())
			st := make([]*hState, len(p.Tasks))
			for i := range st {
				st[i] = &hState{why: "never_ran", changes: map[string]bool{}}
			}
			traceLen := 0
			readTrace := func() []string {
				b, _ := os.ReadFile(filepath.Join(dir, "trace.log"))
				lines := strings.Split(strings.TrimSpace(string(b)), "\n")
				if len(lines) == 1 && lines[0] == "" {
					lines = nil
				}
				return lines
			}
			for si, s := range hist {
				sim.Advance(s.Adv)
				tk := p.Tasks[s.Task]
				desc := fmt.Sprintf("step %d: %s", si, s.String(p))
				trace = append(trace, desc)
				if strings.HasPrefix(s.Kind, "op:") {
					full := filepath.Join(dir, s.File)
					matchedBefore := make([][]string, len(p.Tasks))
					for i, x := range p.Tasks {
						matchedBefore[i] = matchSources(dir, x.Sources)
					}
					recordChange := func() {
						k := strings.TrimPrefix(s.Kind, "op:")
						for i, x := range p.Tasks {
							after := matchSources(dir, x.Sources)
							hit := false
							for _, f := range append(append([]string{}, matchedBefore[i]...), after...) {
								if f == s.File || f == s.New {
									hit = true
								}
							}
							if hit {
								st[i].changes[k] = true
							}
						}
					}
					switch s.Kind {
					case "op:edit", "op:edit-unmatched":
						if _, err := os.Stat(full); err == nil {
							write(s.File, fmt.Sprintf("edited at step %d\n", si))
						}
					case "op:append":
						if b, err := os.ReadFile(full); err == nil {
							write(s.File, string(b)+fmt.Sprintf("appended at step %d\n", si))
						}
					case "op:touch":
						if _, err := os.Stat(full); err == nil {
							stamp(s.File)
						}
					case "op:add":
						write(s.File, fmt.Sprintf("added at step %d\n", si))
					case "op:remove":
						_ = os.Remove(full)
					case "op:rename":
						if _, err := os.Stat(full); err == nil {
							_ = os.Rename(full, filepath.Join(dir, s.New)) // keeps the mtime, like mv
						}
					case "op:delgen":
						if tk.Gen2 && s.Fail == 2 {
							_ = os.Remove(filepath.Join(dir, "out", tk.ID+".gen2")) // only one of the two generated files goes
						} else {
							_ = os.Remove(filepath.Join(dir, "out", tk.ID+".gen"))
						}
					case "op:status":
						sp := filepath.Join(dir, "ctl", "status-"+tk.ID)
						if _, err := os.Stat(sp); err == nil {
							_ = os.Remove(sp)
						} else if tk.Status {
							write("ctl/status-"+tk.ID, "ok")
						}
					case "op:fail":
						write(fmt.Sprintf("ctl/fail-%s-%d", tk.ID, s.Fail), "x")
					case "op:failcall":
						write("ctl/failcall-"+tk.ID, "x")
					case "op:prefail":
						write("ctl/pre-"+tk.ID, "x")
					case "op:clearfail":
						_ = os.Remove(filepath.Join(dir, "ctl", "fail-"+tk.ID+"-1"))
						_ = os.Remove(filepath.Join(dir, "ctl", "fail-"+tk.ID+"-2"))
						_ = os.Remove(filepath.Join(dir, "ctl", "failcall-"+tk.ID))
						_ = os.Remove(filepath.Join(dir, "ctl", "pre-"+tk.ID))
					}
					switch s.Kind {
					case "op:edit", "op:append", "op:touch", "op:add", "op:remove", "op:rename":
						recordChange()
					}
					continue
				}
				// ---- an invocation -------------------------------------------------------------------
				before := snapshotTree(dir)
				// model expectation for the chain dep -> task, evaluated on the tree as it is now
				var chain []int // dependencies first
				for ti := s.Task; ti >= 0; ti = p.Tasks[ti].Dep {
					chain = append([]int{ti}, chain...)
				}
				type exp struct {
					mustRun bool
					cause   string
					fpNow   string
					preFail bool
				}
				exps := map[int]*exp{}
				forced := s.Kind == "run-force"
				genMissing, statusFails, preFails := map[int]bool{}, map[int]bool{}, map[int]bool{}
				for _, ti := range chain {
					x := p.Tasks[ti]
					_, genErr := os.Stat(filepath.Join(dir, "out", x.ID+".gen"))
					if x.Gen2 && genErr == nil {
						_, genErr = os.Stat(filepath.Join(dir, "out", x.ID+".gen2"))
					}
					_, stErr := os.Stat(filepath.Join(dir, "ctl", "status-"+x.ID))
					_, preErr := os.Stat(filepath.Join(dir, "ctl", "pre-"+x.ID))
					genMissing[ti], statusFails[ti], preFails[ti] = x.Generates && genErr != nil, x.Status && stErr != nil, x.Pre && preErr == nil
				}
				// expect is evaluated after the invocation (and after its files got their simulated mtimes): a task's
				// sources may include a file its dependency regenerates during this very invocation, and the task
				// looks at its sources only after its dependencies are done. Nothing else touches sources while
				// an invocation runs; generates/status/precondition facts are the ones from before it.
				expect := func() {
					for _, ti := range chain {
						x := p.Tasks[ti]
						m := x.method(p)
						e := &exp{fpNow: modelFP(dir, x, m), preFail: preFails[ti]}
						genErr, stErr := error(nil), error(nil)
						if genMissing[ti] {
							genErr = os.ErrNotExist
						}
						if statusFails[ti] {
							stErr = os.ErrNotExist
						}
						if x.SrcDep && st[ti].clean && st[ti].fp != e.fpNow && len(st[ti].changes) == 0 {
							st[ti].changes["dep_output"] = true
							out.Hit("change:dep_output_regenerated")
						}
						switch {
						case forced:
							e.mustRun, e.cause = true, "force"
						case !st[ti].clean:
							e.mustRun, e.cause = true, "last_attempt:"+st[ti].why
						case st[ti].fp != e.fpNow:
							e.mustRun, e.cause = true, "sources_changed:"+strings.Join(sortedKeysH(st[ti].changes), "+")
							if m == "timestamp" {
								// what is left of the changes: is any present source file newer than the last successful
								// run (an edit, touch or addition survives), or only removals / mtime-preserving renames
								newer := false
								for _, f := range matchSources(dir, x.Sources) {
									if fi, err := os.Stat(filepath.Join(dir, f)); err == nil && fi.ModTime().After(st[ti].cleanAt) {
										newer = true
									}
								}
								if newer {
									e.cause = "sources_changed:newer_file_present(" + strings.Join(sortedKeysH(st[ti].changes), "+") + ")"
								} else {
									e.cause = "sources_changed:only_removed_or_mtime_preserved"
								}
							}
						case x.Generates && genErr != nil:
							e.mustRun, e.cause = true, "generates_missing"
						case x.Status && stErr != nil:
							e.mustRun, e.cause = true, "status_fails"
						}
						exps[ti] = e
					}
				}
				gid := fmt.Sprintf("s%d", si)
				sim.Triggers = nil
				var trig *vs.Trigger
				switch s.Kind {
				case "crash-cmd":
					trig = &vs.Trigger{Name: "crash@cmd", Kind: "site", Match: "RunTask: if err := e.runCommand(ctx, t, call, i)", Count: s.CrashN, Abandon: true}
				case "crash-fp":
					trig = &vs.Trigger{Name: "crash@fingerprint", Kind: "site", Match: "internal/fingerprint/", Count: s.CrashN, Abandon: true}
				}
				if trig != nil {
					sim.Triggers = []*vs.Trigger{trig}
				}
				inv := invoke(sim, gid, s.argv(p, dir), logDir)
				if inv.parseErr != nil {
					out.HarnessError = "flag parsing failed: " + inv.parseErr.Error()
					return
				}
				crashed := inv.outcome == vs.Abandoned
				if inv.outcome == vs.Deadlock {
					violate("C07", "deadlock|family_H", "%s: invocation deadlocked", desc)
					return
				}
				if inv.outcome == vs.StepCap {
					out.Inconclusive = "stepcap"
					return
				}
				if crashed {
					out.Hit("fault:" + trig.Name)
				}
				after := snapshotTree(dir)
				restamp(dir, now())
				expect()
				lines := readTrace()
				delta := lines[min(traceLen, len(lines)):]
				traceLen = len(lines)
				trace = append(trace, fmt.Sprintf("   -> exit=%d crashed=%v ran=%v", inv.exit, crashed, delta))
				began, ended := map[string]bool{}, map[string]bool{}
				for _, l := range delta {
					if strings.HasPrefix(l, "b:") {
						began[l[2:]] = true
					}
					if strings.HasPrefix(l, "e:") {
						ended[l[2:]] = true
					}
				}
				if isQuery(s.Kind) {
					out.Hit("query:" + s.Kind)
					if d := diffTrees(before, after); len(d) > 0 {
						what := d[0]
						// name the class of the first change, not the concrete path
						cls := strings.Fields(what)[0]
						path := strings.Fields(what)[1]
						switch {
						case strings.HasPrefix(path, ".task/checksum"):
							cls += " .task/checksum"
						case strings.HasPrefix(path, ".task/timestamp"):
							cls += " .task/timestamp"
						case strings.HasPrefix(path, ".task"):
							cls += " .task"
						case strings.HasPrefix(path, "work"):
							cls += " task dir"
						case path == "trace.log":
							cls += " (commands ran)"
						default:
							cls += " project file"
						}
						violate("C12", s.Kind+"|"+cls, "%s changed the tree: %v", desc, d)
					}
					if len(delta) > 0 {
						violate("C12", s.Kind+"|commands_ran", "%s executed commands: %v", desc, delta)
					}
					// --status must not report "up to date" for a task the model says has to run
					if s.Kind == "status" {
						e := exps[s.Task]
						if inv.exit == 0 && e.mustRun && e.cause != "force" {
							pr, sig := hClassify(e.cause, tk.method(p), "status_reports_up_to_date")
							if sharesStateFile(p, tk) {
								sig += "|state_file_shared_with_other_task"
							}
							violate(pr, sig, "%s: --status says up to date but the task has to run (%s)", desc, e.cause)
						}
					}
					restamp(dir, now())
					continue
				}
				// normal invocations
				wrapper := s.Kind == "both"
				reached := true
				if tk.Enum && !wrapper && s.Lvl != "1" && s.Lvl != "2" {
					// the value given on the command line is outside the enum: the requirement is checked before the
					// task's dependencies start, so nothing of the chain runs and the invocation ends with 207
					out.Hit("fault:enum_violated")
					if len(delta) > 0 {
						violate("C13", "guard_ignored|enum|command_line_value", "%s: LVL=%s is not in the enum of task %s but commands ran: %v", desc, s.Lvl, tk.Name, delta)
					} else if inv.exit != 207 && !crashed {
						violate("C13", "guard_exit_status|enum|command_line_value", "%s: LVL=%s is not in the enum of task %s, exit %d, want 207", desc, s.Lvl, tk.Name, inv.exit)
					}
					restamp(dir, now())
					continue
				}
				for _, ti := range chain {
					x := p.Tasks[ti]
					e := exps[ti]
					ran := began[x.ID]
					done := ended[x.ID]
					if !reached {
						break
					}
					declined := x.Prompt && !strings.Contains(strings.Join(s.argv(p, dir), " "), "--yes")
					wasAfterCancel := st[ti].afterCancel
					st[ti].afterCancel = !ran && !crashed && inv.exit != 0 && (wrapper || wasAfterCancel)
					switch {
					case e.preFail && forced:
						// --force is documented to skip preconditions: nothing asserted here, only bookkeeping
						if ran && done {
							st[ti].clean, st[ti].fp, st[ti].everRan, st[ti].changes, st[ti].cleanAt, st[ti].lastOKForced = true, e.fpNow, true, map[string]bool{}, now(), true
						} else if ran {
							st[ti].clean, st[ti].why = false, "failed_cmd"
							reached = false
						}
					case e.preFail:
						// a failing precondition stops the task, up to date or not, and fails the invocation; it is no
						// attempt: what was recorded before stays as it was
						out.Hit("fault:precondition_fails")
						utd := "has_to_run"
						if !e.mustRun {
							utd = "up_to_date"
						}
						if ran {
							violate("C13", "guard_ignored|precond|fingerprinted_task|"+utd, "%s: the commands of task %s ran although its precondition fails", desc, x.Name)
							if done {
								st[ti].clean, st[ti].fp, st[ti].everRan, st[ti].changes, st[ti].cleanAt = true, e.fpNow, true, map[string]bool{}, now()
							} else {
								st[ti].clean, st[ti].why = false, "failed_cmd"
							}
						} else if inv.exit == 0 && !crashed {
							violate("C13", "guard_failure_not_reported|precond|fingerprinted_task|"+utd, "%s: the precondition of task %s fails but the invocation exited 0", desc, x.Name)
						}
						if crashed && e.mustRun {
							st[ti].clean, st[ti].why = false, "crashed"
						}
						reached = false
					case crashed:
						// killed part-way: only soundness-relevant bookkeeping
						if ran && done {
							st[ti].clean, st[ti].fp, st[ti].everRan, st[ti].changes, st[ti].cleanAt = true, e.fpNow, true, map[string]bool{}, now()
						} else if e.mustRun {
							// the process was killed somewhere in this invocation: the fingerprint of any task of
							// the chain that had to run may already have been recorded (an earlier task of the
							// chain may have been skipped on the strength of such a leftover record)
							st[ti].clean, st[ti].why = false, "crashed"
						}
					case e.mustRun && !ran:
						if declined && (inv.exit == 205) {
							st[ti].clean, st[ti].why = false, "prompt_declined"
							out.Hit("fault:prompt_no_terminal")
							reached = false
							break
						}
						if wrapper && inv.exit != 0 {
							// next to the always-failing sibling "not run" can mean cancelled before its commands
							// started or skipped as up to date; the two cannot be told apart from outside, so the
							// reason recorded for the previous attempt is kept. Later tasks of the chain are only
							// looked at if one of them provably started.
							out.Hit("fault:sibling_cancel_or_skip")
							later := false
							for _, tj := range chain {
								if tj != ti && began[p.Tasks[tj].ID] {
									later = true
								}
							}
							if !later {
								reached = false
							}
							break
						}
						// "skipped as up to date" is only certain when the invocation went on: it succeeded, or a
						// later task of the chain started. Otherwise the task may simply not have been reached
						// (an earlier failure the model did not anticipate, e.g. after a forced run).
						laterBegan := false
						for _, tj := range chain {
							if tj != ti && began[p.Tasks[tj].ID] {
								laterBegan = true
							}
						}
						if inv.exit != 0 && !laterBegan {
							out.Hit("not_reached_after_unexpected_failure")
							reached = false
							break
						}
						pr, sig := hClassify(e.cause, x.method(p), "skipped")
						if sharesStateFile(p, x) {
							sig += "|state_file_shared_with_other_task"
						}
						violate(pr, sig, "%s: task %s was skipped as up to date but has to run (%s)", desc, x.Name, e.cause)
						// resynchronise the model with what the program believes
						reached = true
					case !e.mustRun && ran && wasAfterCancel:
						out.Hit("rerun_after_cancelled_attempt")
						if done {
							st[ti].clean, st[ti].fp, st[ti].changes, st[ti].cleanAt = true, e.fpNow, map[string]bool{}, now()
						} else {
							st[ti].clean, st[ti].why = false, "failed_cmd"
							reached = false
						}
					case !e.mustRun && ran:
						sig := "rerun_unchanged|" + x.method(p)
						if st[ti].lastOKForced {
							sig += "|last_success_was_forced"
						}
						if sharesStateFile(p, x) {
							sig += "|state_file_shared_with_other_task"
						}
						violate("C05", sig, "%s: task %s ran although nothing changed since its last successful run", desc, x.Name)
						if done {
							st[ti].clean, st[ti].fp, st[ti].changes, st[ti].cleanAt = true, e.fpNow, map[string]bool{}, now()
						} else {
							st[ti].clean, st[ti].why = false, "failed_cmd"
							reached = false
						}
					case e.mustRun && ran:
						st[ti].lastOKForced = forced && done
						if done && (inv.exit == 0 || wrapper) {
							st[ti].clean, st[ti].fp, st[ti].everRan, st[ti].changes, st[ti].cleanAt = true, e.fpNow, true, map[string]bool{}, now()
						} else if done {
							// all commands ran but the invocation failed for another reason
							st[ti].clean, st[ti].fp, st[ti].changes, st[ti].cleanAt = true, e.fpNow, map[string]bool{}, now()
						} else {
							st[ti].clean = false
							st[ti].why = "failed_cmd"
							if wrapper {
								st[ti].why = "cancelled"
								out.Hit("fault:sibling_cancel")
							} else {
								out.Hit("fault:cmd_fail")
							}
							reached = false
						}
					}
				}
				restamp(dir, now())
			}
			out.Steps = sim.Steps
			out.SimSeconds = time.Since(start).Seconds()
			out.Hash = sim.Hash()
			log = sim.Log
			sim.Drain()
		})
	}()
	nInv := 0
	for _, s := range hist {
		if !strings.HasPrefix(s.Kind, "op:") {
			nInv++
		}
	}
	out.NonTrivial = nInv >= 2
	if render {
		out.Rendered = map[string]any{"files": p.Files(), "history": hs, "trace": trace, "strategy": out.Strategy, "schedule": log, "steps": out.Steps}
	}
	return out
}

// hClassify maps the reason a task has to run to the property that demands it and a signature.
func hClassify(cause, method, what string) (string, string) {
	switch {
	case strings.HasPrefix(cause, "last_attempt:"):
		return "C04", what + "|" + method + "|" + cause
	case strings.HasPrefix(cause, "sources_changed"):
		return "C05", what + "|" + method + "|" + cause + ""
	default:
		return "C05", what + "|" + method + "|" + cause
	}
}

func sortedKeysH(m map[string]bool) []string {
	var ks []string
	for k := range m {
		ks = append(ks, k)
	}
	sort.Strings(ks)
	return ks
}
