package verifsim

import (
	"encoding/json"
	"fmt"
	"os"
	"path/filepath"
	"regexp"
	"runtime"
	"sort"
	"strconv"
	"strings"
	"testing"
	"time"
)

// Violation is one oracle verdict. Sig is computed from the facts that make the run illegal (never from
// the output text of the system under test); it is what known_findings.json matches on.
type Violation struct {
	Prop string `json:"prop"`
	Sig  string `json:"sig"`
	Msg  string `json:"msg"`
}

// RunOut is what one simulated run reports.
type RunOut struct {
	Violations   []Violation    `json:"violations,omitempty"`
	Foreign      []Violation    `json:"-"`               // verdicts that belong to another property than the one under check
	Reach        map[string]int `json:"reach,omitempty"` // reach probes / faults fired in this run
	Steps        int            `json:"steps"`
	SimSeconds   float64        `json:"sim_s"`
	Hash         uint64         `json:"hash"`  // digest of schedule + outputs
	Shape        uint64         `json:"shape"` // digest of the generated case
	NonTrivial   bool           `json:"nontrivial"`
	Inconclusive string         `json:"inconclusive,omitempty"`
	Strategy     string         `json:"strategy"`
	Rendered     any            `json:"rendered,omitempty"` // human-readable case (files, config, schedule, trace)
	HarnessError string         `json:"harness_error,omitempty"`
}

func (o *RunOut) Hit(name string) {
	if o.Reach == nil {
		o.Reach = map[string]int{}
	}
	o.Reach[name]++
}

func (o *RunOut) Violate(prop, sig, format string, a ...any) {
	o.Violations = append(o.Violations, Violation{Prop: prop, Sig: sig, Msg: fmt.Sprintf(format, a...)})
}

// Case runs one simulated case drawn from ch for property prop. render asks for RunOut.Rendered.
type Case func(t *testing.T, ch *Choices, prop string, tier string, render bool) *RunOut

// Replay is the on-disk replay file.
type Replay struct {
	Property    string     `json:"property"`
	Engine      string     `json:"engine"`
	Family      string     `json:"family"`
	Tier        string     `json:"tier"`
	Seed        uint64     `json:"seed"`
	Run         uint64     `json:"run"`
	Choices     []int      `json:"choices"`
	Violation   *Violation `json:"violation"`
	Shrunk      bool       `json:"shrunk"`
	ShrinkTries int        `json:"shrink_tries"`
	OrigLen     int        `json:"orig_len"`
	Rendered    any        `json:"rendered"`
}

// Summary is what a worker prints at the end (one JSON line prefixed with "SUMMARY ").
type Summary struct {
	Property      string            `json:"property"`
	Engine        string            `json:"engine"`
	Family        string            `json:"family"`
	Runs          int               `json:"runs"`
	Steps         int64             `json:"steps"`
	SimSeconds    float64           `json:"sim_s"`
	WallSeconds   float64           `json:"wall_s"`
	Reach         map[string]int    `json:"reach"`
	Strategies    map[string]int    `json:"strategies"`
	Inconclusive  map[string]int    `json:"inconclusive"`
	Foreign       map[string]int    `json:"foreign"`
	ForeignMsg    map[string]string `json:"foreign_msg"`
	Hashes        []uint64          `json:"hashes"`     // distinct schedule/trace digests
	NonTrivial    []uint64          `json:"nontrivial"` // distinct (shape^hash) of runs that reached the trigger condition
	Shapes        []uint64          `json:"shapes"`
	Samples       []any             `json:"samples"`
	Violations    []ViolationRec    `json:"violations"`
	HarnessErrors []string          `json:"harness_errors"`
}

type ViolationRec struct {
	Violation
	Replay string `json:"replay"`
	Run    uint64 `json:"run"`
	Count  int    `json:"count"`
}

// cfgEnv is the snapshot of the worker's configuration variables taken when WorkerMain starts. The process
// environment itself is then reduced to a fixed set of variables: go-task turns every environment variable
// into a template variable, so the *set* of variables is an input of the system under test (it changes map
// sizes and with them the draws of MapOrder) and must be the same in a check run and in a replay.
var cfgEnv = map[string]string{}

// Cfg returns a configuration variable of the worker (VERIF_*), as it was when the worker started.
func Cfg(name string) string {
	if v, ok := cfgEnv[name]; ok {
		return v
	}
	return os.Getenv(name)
}

func sanitiseEnv() {
	if len(cfgEnv) > 0 {
		return
	}
	for _, kv := range os.Environ() {
		if i := strings.IndexByte(kv, '='); i > 0 {
			cfgEnv[kv[:i]] = kv[i+1:]
		}
	}
	root := cfgEnv["VERIF_WORKROOT"]
	if root == "" {
		root = os.TempDir()
	}
	os.Clearenv()
	os.Setenv("PATH", "/usr/bin:/bin")
	os.Setenv("HOME", root)
	os.Setenv("TMPDIR", root)
	os.Setenv("NO_COLOR", "1")
	os.Setenv("TASK_X_REMOTE_TASKFILES", "1")
}

func envInt(name string, def int64) int64 {
	if v := Cfg(name); v != "" {
		if n, err := strconv.ParseInt(v, 10, 64); err == nil {
			return n
		}
	}
	return def
}

var slugRe = regexp.MustCompile(`[^A-Za-z0-9_.=-]+`)

func slug(s string) string {
	s = slugRe.ReplaceAllString(s, "_")
	if len(s) > 80 {
		s = s[:80]
	}
	return s
}

// WorkerMain is the body of the single test function of every engine binary.
//
//	VERIF_PROP, VERIF_TIER, VERIF_SEED, VERIF_RUN_FROM, VERIF_RUN_COUNT, VERIF_BUDGET_S, VERIF_REPLAY_DIR
//	VERIF_REPLAY=<file>  : replay mode; exit status 1 when the violation reproduces, 0 when not
//	VERIF_DUMP=1         : print the rendered case of every run (debugging)
//
// Tick tells the watchdog that the worker is making progress; families that execute several programs within one
// run (fault enumeration) call it between executions. Set by WorkerMain.
var Tick = func() {}

func WorkerMain(t *testing.T, engine, family string, c Case) {
	sanitiseEnv()
	prop := Cfg("VERIF_PROP")
	tier := Cfg("VERIF_TIER")
	if tier == "" {
		tier = "quick"
	}
	// watchdog outside any bubble: a single run must not take more than VERIF_RUN_TIMEOUT_S of real time
	runTimeout := time.Duration(envInt("VERIF_RUN_TIMEOUT_S", 120)) * time.Second
	var beat = make(chan struct{}, 1)
	go func() {
		for {
			select {
			case <-beat:
			case <-time.After(runTimeout):
				buf := make([]byte, 1<<20)
				n := runtime.Stack(buf, true)
				fmt.Fprintf(os.Stderr, "WATCHDOG: run exceeded %v\n%s\n", runTimeout, buf[:n])
				os.Exit(2)
			}
		}
	}()
	tick := func() {
		select {
		case beat <- struct{}{}:
		default:
		}
	}
	Tick = tick

	if path := Cfg("VERIF_REPLAY"); path != "" {
		b, err := os.ReadFile(path)
		if err != nil {
			fmt.Fprintln(os.Stderr, "replay:", err)
			os.Exit(2)
		}
		var r Replay
		if err := json.Unmarshal(b, &r); err != nil {
			fmt.Fprintln(os.Stderr, "replay:", err)
			os.Exit(2)
		}
		if n := envInt("VERIF_REPLAY_WARMUP", 0); n > 0 {
			// debugging aid: run other cases first to expose state that leaks between runs of one process
			for i := int64(0); i < n; i++ {
				w := NewRandomChoices(uint64(r.Seed), uint64(i))
				o := c(t, w, r.Property, r.Tier, false)
				_ = o
			}
		}
		ch := NewReplayChoices(r.Choices)
		out := c(t, ch, r.Property, r.Tier, true)
		if out.HarnessError != "" {
			fmt.Fprintln(os.Stderr, "HARNESS-ERROR:", out.HarnessError)
			os.Exit(2)
		}
		if Cfg("VERIF_REPLAY_PRINT") != "" {
			b, _ := json.MarshalIndent(out.Rendered, "", " ")
			fmt.Printf("RENDERED %s\n", b)
		}
		reproduced := false
		for _, v := range out.Violations {
			if r.Violation != nil && v.Prop == r.Violation.Prop && v.Sig == r.Violation.Sig {
				reproduced = true
			}
			// lax replays (C09: map order inside dependencies, C18: runtime interleaving): any violation of
			// the same property counts, e.g. another racing pair of the same defect
			if Cfg("VERIF_REPLAY_LAX") != "" && r.Violation != nil && v.Prop == r.Violation.Prop {
				reproduced = true
			}
		}
		// the rendered case must be identical, otherwise the replay diverged
		want, _ := json.Marshal(dropSchedule(r.Rendered))
		got, _ := json.Marshal(dropSchedule(normJSON(out.Rendered)))
		if string(want) != string(got) && Cfg("VERIF_REPLAY_LAX") == "" {
			fmt.Printf("REPLAY-DIVERGED property=%s file=%s\n", r.Property, path)
			if Cfg("VERIF_DUMP") != "" {
				fmt.Printf("want: %s\ngot:  %s\n", want, got)
			}
			os.Exit(2)
		}
		if reproduced {
			fmt.Printf("REPLAY-REPRODUCED property=%s sig=%s msg=%s\n", r.Violation.Prop, r.Violation.Sig, r.Violation.Msg)
			os.Exit(1)
		}
		fmt.Printf("REPLAY-CLEAN property=%s (violation did not reproduce)\n", r.Property)
		os.Exit(0)
	}

	seed := uint64(envInt("VERIF_SEED", 1))
	from := uint64(envInt("VERIF_RUN_FROM", 0))
	count := uint64(envInt("VERIF_RUN_COUNT", 100))
	budget := time.Duration(envInt("VERIF_BUDGET_S", 3600)) * time.Second
	replayDir := Cfg("VERIF_REPLAY_DIR")
	if replayDir == "" {
		replayDir = os.TempDir()
	}
	dump := Cfg("VERIF_DUMP") != ""
	maxShrink := int(envInt("VERIF_SHRINK_TRIES", 200))
	shrinkWall := time.Duration(envInt("VERIF_SHRINK_WALL_S", 45)) * time.Second
	known := loadKnown(Cfg("VERIF_KNOWN"))

	sum := &Summary{Property: prop, Engine: engine, Family: family, Reach: map[string]int{}, Strategies: map[string]int{}, Inconclusive: map[string]int{}, Foreign: map[string]int{}, ForeignMsg: map[string]string{}}
	hashes := map[uint64]struct{}{}
	nontriv := map[uint64]struct{}{}
	shapes := map[uint64]struct{}{}
	seenSig := map[string]*ViolationRec{}
	start := time.Now()
	for i := from; i < from+count; i++ {
		if time.Since(start) > budget {
			break
		}
		tick()
		ch := NewRandomChoices(seed, i)
		ch.Max = 200000
		wantRender := dump || len(sum.Samples) < 3
		out := c(t, ch, prop, tier, wantRender)
		sum.Runs++
		if out.HarnessError != "" {
			sum.HarnessErrors = append(sum.HarnessErrors, fmt.Sprintf("run %d: %s", i, out.HarnessError))
			if len(sum.HarnessErrors) > 5 {
				break
			}
			continue
		}
		sum.Steps += int64(out.Steps)
		sum.SimSeconds += out.SimSeconds
		sum.Strategies[out.Strategy]++
		for k, v := range out.Reach {
			sum.Reach[k] += v
		}
		for _, v := range out.Foreign {
			sum.Foreign[v.Prop+"|"+v.Sig]++
			if _, ok := sum.ForeignMsg[v.Prop+"|"+v.Sig]; !ok {
				sum.ForeignMsg[v.Prop+"|"+v.Sig] = fmt.Sprintf("run %d: %s", i, v.Msg)
			}
		}
		if out.Inconclusive != "" {
			sum.Inconclusive[out.Inconclusive]++
		}
		if len(hashes) < 500000 {
			hashes[out.Hash] = struct{}{}
		}
		shapes[out.Shape] = struct{}{}
		if out.NonTrivial && len(nontriv) < 500000 {
			nontriv[out.Shape*1099511628211^out.Hash] = struct{}{}
		}
		if dump {
			b, _ := json.MarshalIndent(out, "", " ")
			fmt.Printf("RUN %d %s\n", i, b)
		}
		if wantRender && len(sum.Samples) < 3 && out.Rendered != nil && (out.NonTrivial || i > from+20) {
			sum.Samples = append(sum.Samples, out.Rendered)
		}
		for _, v := range out.Violations {
			key := v.Prop + "|" + v.Sig
			if rec, ok := seenSig[key]; ok {
				rec.Count++
				continue
			}
			rec := &ViolationRec{Violation: v, Run: i, Count: 1}
			seenSig[key] = rec
			// minimise: same property and same signature
			orig := append([]int(nil), ch.Rec...)
			vv := v
			shrinkStart := time.Now()
			test := func(list []int) (bool, []int) {
				tick()
				// minimisation is bounded in wall-clock time too (a violation whose runs are slow -- runaway
				// recursion up to the step cap -- must not eat the batch); what is kept is replayed exactly either way
				if time.Since(shrinkStart) > shrinkWall {
					return false, nil
				}
				c2 := NewReplayChoices(list)
				c2.Max = 200000
				o2 := c(t, c2, prop, tier, false)
				if o2.HarnessError != "" {
					return false, nil
				}
				for _, x := range o2.Violations {
					if x.Prop == vv.Prop && x.Sig == vv.Sig {
						return true, c2.Rec
					}
				}
				return false, nil
			}
			best, tries := orig, 0
			if maxShrink > 0 && !known.match(v.Prop, v.Sig) {
				best, tries = Shrink(orig, maxShrink, test)
			}
			c3 := NewReplayChoices(best)
			o3 := c(t, c3, prop, tier, true)
			var final *Violation
			for k := range o3.Violations {
				if o3.Violations[k].Prop == v.Prop && o3.Violations[k].Sig == v.Sig {
					final = &o3.Violations[k]
				}
			}
			shrunk := true
			if final == nil { // should not happen; fall back to the original
				c3 = NewReplayChoices(orig)
				o3 = c(t, c3, prop, tier, true)
				final = &vv
				shrunk = false
			}
			rp := Replay{Property: prop, Engine: engine, Family: family, Tier: tier, Seed: seed, Run: i, Choices: c3.Rec, Violation: final,
				Shrunk: shrunk, ShrinkTries: tries, OrigLen: len(orig), Rendered: o3.Rendered}
			name := fmt.Sprintf("%s-%s-s%d-r%d.json", v.Prop, slug(v.Sig), seed, i)
			path := filepath.Join(replayDir, name)
			b, _ := json.MarshalIndent(rp, "", " ")
			_ = os.MkdirAll(replayDir, 0o755)
			if err := os.WriteFile(path, b, 0o644); err != nil {
				sum.HarnessErrors = append(sum.HarnessErrors, "write replay: "+err.Error())
			}
			rec.Replay = path
			rec.Msg = final.Msg
		}
	}
	for _, rec := range seenSig {
		sum.Violations = append(sum.Violations, *rec)
	}
	sort.Slice(sum.Violations, func(i, j int) bool { return sum.Violations[i].Sig < sum.Violations[j].Sig })
	for h := range hashes {
		sum.Hashes = append(sum.Hashes, h)
	}
	for h := range nontriv {
		sum.NonTrivial = append(sum.NonTrivial, h)
	}
	for h := range shapes {
		sum.Shapes = append(sum.Shapes, h)
	}
	sort.Slice(sum.Hashes, func(i, j int) bool { return sum.Hashes[i] < sum.Hashes[j] })
	sort.Slice(sum.NonTrivial, func(i, j int) bool { return sum.NonTrivial[i] < sum.NonTrivial[j] })
	sort.Slice(sum.Shapes, func(i, j int) bool { return sum.Shapes[i] < sum.Shapes[j] })
	sum.WallSeconds = time.Since(start).Seconds()
	b, _ := json.Marshal(sum)
	fmt.Printf("SUMMARY %s\n", b)
	if out := Cfg("VERIF_OUT"); out != "" {
		_ = os.WriteFile(out, b, 0o644)
	}
}

// knownSet: open entries of known_findings.json. A violation that matches one is still reported to the driver
// (which prints KNOWN-FINDING), but no time is spent minimising it again.
type knownSet []struct {
	Property string `json:"property"`
	Sig      string `json:"signature"`
	Re       string `json:"signature_regex"`
	Status   string `json:"status"`
}

func loadKnown(path string) knownSet {
	if path == "" {
		return nil
	}
	b, err := os.ReadFile(path)
	if err != nil {
		return nil
	}
	var d struct {
		Findings knownSet `json:"findings"`
	}
	if json.Unmarshal(b, &d) != nil {
		return nil
	}
	return d.Findings
}

func (k knownSet) match(prop, sig string) bool {
	for _, f := range k {
		if f.Property != prop || (f.Status != "" && f.Status != "open") {
			continue
		}
		if f.Sig == sig {
			return true
		}
		if f.Re != "" {
			if re, err := regexp.Compile("^(?:" + f.Re + ")$"); err == nil && re.MatchString(sig) {
				return true
			}
		}
	}
	return false
}

// dropSchedule removes the human-readable scheduling log from a rendered case before comparison: its site
// names may be permuted by map iteration inside the system under test (see Sim.Drive).
func dropSchedule(v any) any {
	m, ok := v.(map[string]any)
	if !ok {
		return v
	}
	c := map[string]any{}
	for k, x := range m {
		if k != "schedule" {
			c[k] = x
		}
	}
	return c
}

// normJSON round-trips a value through JSON so that comparisons see the same shapes as a decoded file.
func normJSON(v any) any {
	b, err := json.Marshal(v)
	if err != nil {
		return nil
	}
	var x any
	_ = json.Unmarshal(b, &x)
	return x
}

// HashString is FNV-1a.
func HashString(s string) uint64 {
	h := uint64(1469598103934665603)
	for i := 0; i < len(s); i++ {
		h ^= uint64(s[i])
		h *= 1099511628211
	}
	return h
}

// StripDir removes a run directory prefix from text so traces do not depend on temp names.
func StripDir(s, dir string) string {
	if dir == "" {
		return s
	}
	return strings.ReplaceAll(s, dir, "$D")
}
