package verifsim

import "strings"

// Strategy picks the next goroutine to release among the parked ones (len(P) >= 2).
type Strategy interface {
	Name() string
	Pick(s *Sim, P []*G) int
}

// NewStrategy draws one strategy for the run (swarm).
func NewStrategy(ch *Choices, allow []string) Strategy {
	if len(allow) == 0 {
		allow = []string{"random", "sticky", "sticky", "pct", "holdfin", "starve"}
	}
	switch allow[ch.Draw(len(allow))] {
	case "sticky":
		return &sticky{den: []int{20, 5, 2}[ch.Draw(3)]}
	case "pct":
		d := 1 + ch.Draw(3)
		p := &pct{}
		for i := 0; i < d-1; i++ {
			p.change = append(p.change, 1+ch.Draw(400))
		}
		return p
	case "holdfin":
		return &holdFin{}
	case "starve":
		return &starve{victim: 1 + ch.Draw(8)}
	}
	return &random{}
}

type random struct{}

func (*random) Name() string            { return "random" }
func (*random) Pick(s *Sim, P []*G) int { return s.Ch.Draw(len(P)) }

// sticky keeps running the goroutine released last and switches with probability 1/den.
type sticky struct {
	den  int
	last *G
}

func (t *sticky) Name() string      { return "sticky" }
func (t *sticky) Note(s *Sim, g *G) { t.last = g }
func (t *sticky) Pick(s *Sim, P []*G) int {
	idx := -1
	for i, g := range P {
		if g == t.last {
			idx = i
		}
	}
	if idx >= 0 && s.Ch.Draw(t.den) != 0 {
		return idx
	}
	i := s.Ch.Draw(len(P))
	t.last = P[i]
	return i
}

// pct: random priorities, d-1 priority change points (Burckhardt et al.).
type pct struct {
	change []int
	low    int
}

func (p *pct) Name() string { return "pct" }
func (p *pct) OnNew(s *Sim, g *G) {
	g.prio = 1000 + s.Ch.Draw(100000)
}
func (p *pct) Pick(s *Sim, P []*G) int {
	best := 0
	for i, g := range P {
		if g.prio > P[best].prio || (g.prio == P[best].prio && g.Idx < P[best].Idx) {
			best = i
		}
	}
	for i, c := range p.change {
		if c >= 0 && c <= s.Steps {
			p.change[i] = -1
			p.low++
			P[best].prio = 1000 - p.low
			return p.Pick(s, P)
		}
	}
	return best
}

// holdFin never releases a goroutine parked right after an END probe while another one is available:
// it maximises the number of simultaneously "running" commands.
type holdFin struct{}

func (*holdFin) Name() string { return "holdfin" }
func (*holdFin) Pick(s *Sim, P []*G) int {
	var cand []int
	for i, g := range P {
		if g.site == SiteWrite && strings.HasPrefix(g.LastLine, "E|") {
			continue
		}
		cand = append(cand, i)
	}
	if len(cand) == 0 {
		return s.Ch.Draw(len(P))
	}
	return cand[s.Ch.Draw(len(cand))]
}

// starve: one victim goroutine (by creation index) is never chosen while another is available.
type starve struct{ victim int }

func (*starve) Name() string { return "starve" }
func (t *starve) Pick(s *Sim, P []*G) int {
	var cand []int
	for i, g := range P {
		if g.Idx != t.victim {
			cand = append(cand, i)
		}
	}
	if len(cand) == 0 {
		return s.Ch.Draw(len(P))
	}
	return cand[s.Ch.Draw(len(cand))]
}

// holdOpen never releases a goroutine parked right after a START probe while another one is available: every
// command that can start does start and stays open, which shows how many commands the system under test lets
// run at once.
type holdOpen struct{}

func (*holdOpen) Name() string { return "holdopen" }
func (*holdOpen) Pick(s *Sim, P []*G) int {
	var cand []int
	for i, g := range P {
		if g.site == SiteWrite && strings.HasPrefix(g.LastLine, "S|") {
			continue
		}
		cand = append(cand, i)
	}
	if len(cand) == 0 {
		return s.Ch.Draw(len(P))
	}
	return cand[s.Ch.Draw(len(cand))]
}

// NewHoldOpen returns the hold-open strategy (used by the C07 progress check).
func NewHoldOpen() Strategy { return &holdOpen{} }
