// Package verifsim is the deterministic-simulation runtime that instrumented copies of
// go-task/task call into (see /verif/tools/instrument) and the harness side of the simulator:
// seeded scheduler, parking writers, choice stream, shrinking, replay files.
//
// It is overlaid into the module as internal/verifsim at check build time; /repo never contains it.
// It imports only the standard library.
package verifsim

import (
	"cmp"
	"fmt"
	"slices"
	"strconv"
	"strings"
	"sync"
	"sync/atomic"
	"testing/synctest"
	"time"
)

// SiteNames ("kind@file:line") and SiteTexts ("Func: first source line of the statement") are filled by the
// generated sites_gen.go.
var SiteNames []string
var SiteTexts []string

// SiteDesc is what Trigger.Match and forced-mask patterns are matched against.
func SiteDesc(id int) string {
	if id >= 0 && id < len(SiteNames) {
		if id < len(SiteTexts) {
			return SiteNames[id] + " " + SiteTexts[id]
		}
		return SiteNames[id]
	}
	return SiteName(id)
}

// Site ids for scheduling points that do not come from the instrumenter.
const (
	SiteStart  = -1 // goroutine start
	SiteWrite  = -2 // parking writer
	SiteNet    = -3 // simulated transport
	SiteManual = -4
)

func SiteName(id int) string {
	switch id {
	case SiteStart:
		return "start"
	case SiteWrite:
		return "write"
	case SiteNet:
		return "net"
	case SiteManual:
		return "manual"
	}
	if id >= 0 && id < len(SiteNames) {
		return SiteNames[id]
	}
	return "site" + strconv.Itoa(id)
}

// G is the simulator's record of one goroutine that runs system-under-test code.
type G struct {
	ID        string
	Idx       int // creation index
	wake      chan struct{}
	parked    bool
	blocked   bool
	done      bool
	abandoned bool
	site      int
	lockDepth int
	nchild    int
	prio      int
	LastLine  string // last complete line written to a simulator-owned writer
	lineBuf   map[string][]byte
	lockWait  bool
	lockEpoch int
}

func (g *G) Done() bool { return g.done }

// Outcome of driving a root goroutine.
type Outcome int

const (
	Finished Outcome = iota
	Deadlock
	StepCap
	Abandoned
)

func (o Outcome) String() string {
	return [...]string{"finished", "deadlock", "stepcap", "abandoned"}[o]
}

// Event is one complete line written to a simulator-owned writer.
type Event struct {
	Seq    int
	Step   int
	G      string
	Stream string
	Line   string
}

// Chunk is one raw Write on a simulator-owned writer.
type Chunk struct {
	Step   int
	G      string
	Stream string
	Data   string
	Locked bool
}

// Trigger fires an action when a countdown of matching scheduling points reaches zero.
type Trigger struct {
	Name    string
	Kind    string // "event" (line containing Match), "site" (site name containing Match), "step"
	Match   string
	Count   int  // fire on the Count-th match (1-based)
	Abandon bool // abandon the driven group when fired
	Fn      func()
	fired   bool
	pending bool
	seen    int
}

func (t *Trigger) Fired() bool { return t.fired }

// Sim is one simulated run (one synctest bubble).
type Sim struct {
	mu          sync.Mutex
	cur         *G
	gs          []*G
	mask        []bool
	forceOn     []string // site-name substrings whose yields are always enabled
	Ch          *Choices
	free        atomic.Bool
	lateMu      sync.Mutex
	Late        []string // "stream|bytes" written while draining
	parkSig     chan struct{}
	Steps       int
	StepCap     int
	Strategy    Strategy
	Events      []Event
	Chunks      []Chunk
	Log         []string // scheduling log: "<step> <gid> <site>"
	KeepLog     bool
	Hazards     int
	Triggers    []*Trigger
	OnWrite     func(g *G, stream string, p []byte)
	ParkMode    string // "line" (default), "chunk", "none"
	Stats       map[string]int
	lastPick    *G
	hash        uint64
	unlockEpoch int
	deadlocked  bool
	Strip       string // run directory: replaced by $D before output is digested, so digests do not depend on temp names
}

// S is the simulation in progress in this process (at most one). nil = instrumentation is inert.
var S *Sim

// NewSim creates the simulation; must be called inside a synctest bubble.
func NewSim(ch *Choices) *Sim {
	s := &Sim{Ch: ch, parkSig: make(chan struct{}, 1), StepCap: 60000, Stats: map[string]int{}, ParkMode: "line", hash: 1469598103934665603}
	return s
}

// SetMask enables each optional yield site with probability num/den (drawn from the choice stream,
// one draw per 16 sites to keep the stream short), plus every site whose name contains one of force.
func (s *Sim) SetMask(num, den int, force []string) {
	s.mask = make([]bool, len(SiteNames))
	s.forceOn = force
	var bits, left int
	for i := range s.mask {
		if left == 0 {
			bits = 0
			for k := 0; k < 16; k++ {
				if den > 0 && s.Ch.Draw(den) < num {
					bits |= 1 << k
				}
			}
			left = 16
		}
		s.mask[i] = bits&1 == 1
		bits >>= 1
		left--
	}
	for i := range SiteNames {
		for _, f := range force {
			if strings.Contains(SiteDesc(i), f) {
				s.mask[i] = true
			}
		}
	}
}

// SetMaskByFile enables optional yields per source file: each file is on with probability fileNum/fileDen,
// and within an enabled file each site with probability num/den.
func (s *Sim) SetMaskByFile(fileNum, fileDen, num, den int, force []string) {
	s.mask = make([]bool, len(SiteNames))
	s.forceOn = force
	fileOn := map[string]bool{}
	var order []string
	for _, n := range SiteNames {
		f := siteFile(n)
		if _, ok := fileOn[f]; !ok {
			fileOn[f] = false
			order = append(order, f)
		}
	}
	for _, f := range order {
		fileOn[f] = s.Ch.Draw(fileDen) < fileNum
	}
	for i, n := range SiteNames {
		if !strings.HasPrefix(n, "y@") {
			continue
		}
		if fileOn[siteFile(n)] {
			s.mask[i] = s.Ch.Draw(den) < num
		}
	}
	for i, n := range SiteNames {
		if !strings.HasPrefix(n, "y@") {
			continue
		}
		for _, f := range force {
			if strings.Contains(SiteDesc(i), f) {
				s.mask[i] = true
			}
		}
	}
}

func siteFile(n string) string {
	at := strings.IndexByte(n, '@')
	col := strings.LastIndexByte(n, ':')
	if at < 0 || col < at {
		return n
	}
	return n[at+1 : col]
}

func (s *Sim) newG(id string) *G {
	g := &G{ID: id, wake: make(chan struct{}), lineBuf: map[string][]byte{}}
	s.mu.Lock()
	g.Idx = len(s.gs)
	s.gs = append(s.gs, g)
	s.mu.Unlock()
	if p, ok := s.Strategy.(interface{ OnNew(*Sim, *G) }); ok {
		p.OnNew(s, g)
	}
	return g
}

// Go starts fn as a new simulated root goroutine with the given id.
func (s *Sim) Go(id string, fn func()) *G {
	g := s.newG(id)
	go func() {
		s.park(g, SiteStart)
		defer s.finish(g)
		fn()
	}()
	return g
}

func (s *Sim) finish(g *G) {
	s.mu.Lock()
	g.done = true
	s.mu.Unlock()
}

func (s *Sim) park(g *G, site int) {
	if s.free.Load() {
		return
	}
	s.mu.Lock()
	g.site = site
	g.parked = true
	if len(s.Triggers) > 0 && site >= 0 {
		name := SiteDesc(site)
		for _, t := range s.Triggers {
			if t.fired || t.pending || t.Kind != "site" {
				continue
			}
			if strings.Contains(name, t.Match) {
				t.seen++
				if t.seen >= t.Count {
					t.pending = true
				}
			}
		}
	}
	s.mu.Unlock()
	select {
	case s.parkSig <- struct{}{}:
	default:
	}
	<-g.wake
}

// Knobs holds per-run overrides of integer constants of the system under test (set by a harness before the run
// starts, read-only while it runs). KnobInt is what the instrumenter puts in place of a use of such a constant.
var Knobs map[string]int

func KnobInt(name string, def int) int {
	if S == nil {
		return def
	}
	if v, ok := Knobs[name]; ok {
		return v
	}
	return def
}

// Yield is an optional scheduling point inserted before a statement.
func Yield(site int) {
	s := S
	if s == nil {
		return
	}
	if s.free.Load() {
		return
	}
	g := s.cur
	if g == nil {
		return
	}
	if site >= len(s.mask) || !s.mask[site] {
		return
	}
	// a goroutine may park while it holds a mutex of the module: contenders then wait in the simulator
	// (LockVia), so critical sections are preemptible and mutual exclusion is still the real mutex's
	s.park(g, site)
}

// Point is a mandatory scheduling point usable from harness-owned seams (writers, transports).
func (s *Sim) Point(site int) {
	if s.free.Load() {
		return
	}
	g := s.cur
	if g == nil {
		return
	}
	s.park(g, site)
}

// Cur returns the goroutine record currently executing SUT code (nil while draining).
func (s *Sim) Cur() *G {
	if s.free.Load() {
		return nil
	}
	return s.cur
}

func Locked() {
	s := S
	if s == nil || s.free.Load() {
		return
	}
	if g := s.cur; g != nil {
		g.lockDepth++
	}
}

func Unlocked() {
	s := S
	if s == nil || s.free.Load() {
		return
	}
	if g := s.cur; g != nil && g.lockDepth > 0 {
		g.lockDepth--
	}
	s.mu.Lock()
	s.unlockEpoch++ // lock waiters become runnable again and retry
	s.mu.Unlock()
}

// LockVia replaces x.Lock() / x.RLock(). An uncontended lock is taken at once. A contended one (its holder is
// parked or blocked in a primitive) makes the caller wait *in the simulator* until some lock has been released,
// then it retries; if nothing can ever release it the scheduler reports a deadlock.
func LockVia(site int, try func() bool, lock func()) {
	s := S
	if s == nil || s.free.Load() || s.cur == nil {
		lock()
		return
	}
	g := s.cur
	for !try() {
		s.mu.Lock()
		g.lockWait = true
		g.lockEpoch = s.unlockEpoch
		s.Stats["lock_wait"]++
		s.mu.Unlock()
		s.park(g, site)
		g.lockWait = false
		if s.free.Load() {
			lock()
			return
		}
	}
	g.lockDepth++
}

// Wrap is applied to the function handed to errgroup's Go (or to a go statement): the child record is
// created here, in the spawner, so logical ids depend only on the spawn tree.
func Wrap[F any](site int, f F) F {
	s := S
	if s == nil || s.free.Load() {
		return f
	}
	parent := s.cur
	if parent == nil {
		return f
	}
	id := parent.ID + "." + strconv.Itoa(parent.nchild)
	parent.nchild++
	child := s.newG(id)
	child.site = site
	switch fn := any(f).(type) {
	case func() error:
		w := func() error {
			s.park(child, site)
			defer s.finish(child)
			return fn()
		}
		return any(w).(F)
	case func():
		w := func() {
			s.park(child, site)
			defer s.finish(child)
			fn()
		}
		return any(w).(F)
	}
	// unknown function shape: cannot wrap; mark the record finished so it is never waited for
	child.done = true
	s.Hazards++
	return f
}

func (s *Sim) beforeBlock(g *G, site int) {
	s.mu.Lock()
	g.blocked = true
	g.site = site
	if site >= 0 {
		n := SiteName(site)
		if i := strings.LastIndexByte(n, ':'); i >= 0 {
			n = n[:i]
		}
		s.Stats["block:"+n]++
	}
	s.mu.Unlock()
}

func (s *Sim) afterBlock(g *G, site int) {
	s.mu.Lock()
	g.blocked = false
	s.mu.Unlock()
	s.park(g, site)
}

// Block0 wraps a blocking primitive in statement context.
func Block0(site int, f func()) {
	s := S
	if s == nil || s.free.Load() {
		f()
		return
	}
	g := s.cur
	if g == nil {
		f()
		return
	}
	s.beforeBlock(g, site)
	f()
	s.afterBlock(g, site)
}

// BlockErr wraps a blocking primitive returning an error (errgroup.Wait).
func BlockErr(site int, f func() error) error {
	s := S
	if s == nil || s.free.Load() {
		return f()
	}
	g := s.cur
	if g == nil {
		return f()
	}
	s.beforeBlock(g, site)
	err := f()
	s.afterBlock(g, site)
	return err
}

// Recv wraps a channel receive in value context.
func Recv[T any](site int, ch <-chan T) T {
	var v T
	Block0(site, func() { v = <-ch })
	return v
}

// Recv2 wraps `v, ok := <-ch`.
func Recv2[T any](site int, ch <-chan T) (T, bool) {
	var v T
	var ok bool
	Block0(site, func() { v, ok = <-ch })
	return v, ok
}

// BlockTok is returned by BlockBegin for select statements.
type BlockTok struct {
	g    *G
	site int
}

func BlockBegin(site int) BlockTok {
	s := S
	if s == nil || s.free.Load() {
		return BlockTok{}
	}
	g := s.cur
	if g == nil {
		return BlockTok{}
	}
	s.beforeBlock(g, site)
	return BlockTok{g, site}
}

func BlockEnd(t BlockTok) {
	s := S
	if s == nil || t.g == nil || s.free.Load() {
		return
	}
	s.afterBlock(t.g, t.site)
}

// ---------------------------------------------------------------------------------------------------
// scheduler

func (s *Sim) runnable(prefix string) []*G {
	var p []*G
	for _, g := range s.gs {
		if g.lockWait && g.lockEpoch == s.unlockEpoch {
			continue // waits for a lock and nothing has been released since
		}
		if g.parked && !g.abandoned && !g.done && (prefix == "" || g.ID == prefix || strings.HasPrefix(g.ID, prefix+".")) {
			p = append(p, g)
		}
	}
	return p
}

func (s *Sim) mix(x uint64) {
	s.hash ^= x
	s.hash *= 1099511628211
}

func (s *Sim) mixString(str string) {
	for i := 0; i < len(str); i++ {
		s.mix(uint64(str[i]))
	}
}

// Hash is a digest of every scheduling decision and every written chunk so far.
func (s *Sim) Hash() uint64 { return s.hash }

// Drive schedules the goroutines of root's group (ids root.ID and root.ID.*) until root finishes,
// the group deadlocks, the step cap is hit or an abandoning trigger fires.
func (s *Sim) Drive(root *G) Outcome {
	idle := 0
	for {
		synctest.Wait()
		s.mu.Lock()
		if root.done {
			s.mu.Unlock()
			return Finished
		}
		// triggers
		var fire []*Trigger
		for _, t := range s.Triggers {
			if t.pending && !t.fired {
				t.fired = true
				t.pending = false
				fire = append(fire, t)
			}
		}
		s.mu.Unlock()
		abandon := false
		for _, t := range fire {
			s.Stats["trigger:"+t.Name]++
			if t.Fn != nil {
				t.Fn()
			}
			if t.Abandon {
				abandon = true
			}
		}
		if abandon {
			s.Abandon(root.ID)
			return Abandoned
		}
		if len(fire) > 0 {
			continue // the action may have woken goroutines
		}
		s.mu.Lock()
		P := s.runnable(root.ID)
		s.mu.Unlock()
		if len(P) == 0 {
			// nothing to schedule: let simulated time pass until somebody parks
			select {
			case <-s.parkSig:
				idle = 0
			case <-time.After(10 * time.Minute):
				idle++
				if idle >= 6 {
					s.deadlocked = true
					return Deadlock
				}
			}
			continue
		}
		idle = 0
		select {
		case <-s.parkSig:
		default:
		}
		if s.Steps >= s.StepCap {
			s.deadlocked = true // do not drain: the program may never terminate (runaway recursion)
			return StepCap
		}
		g := P[0]
		if len(P) > 1 {
			g = P[s.Strategy.Pick(s, P)]
		} else if n, ok := s.Strategy.(interface{ Note(*Sim, *G) }); ok {
			n.Note(s, g)
		}
		s.Steps++
		// the digest covers who ran, not where it was parked: a Go map iteration inside the system under test
		// (e.g. fingerprint.collectKeys) permutes the order of yield sites inside one goroutine from process
		// to process without changing anything observable
		s.mix(uint64(g.Idx))
		if s.KeepLog {
			s.Log = append(s.Log, fmt.Sprintf("%d %s %s", s.Steps, g.ID, SiteName(g.site)))
		}
		// step triggers
		for _, t := range s.Triggers {
			if t.Kind == "step" && !t.fired && !t.pending {
				t.seen++
				if t.seen >= t.Count {
					t.pending = true
				}
			}
		}
		s.lastPick = g
		s.mu.Lock()
		g.parked = false
		s.cur = g
		s.mu.Unlock()
		g.wake <- struct{}{}
	}
}

// Abandon stops scheduling every goroutine of the group for good ("process killed").
func (s *Sim) Abandon(prefix string) {
	s.mu.Lock()
	for _, g := range s.gs {
		if g.ID == prefix || strings.HasPrefix(g.ID, prefix+".") {
			g.abandoned = true
		}
	}
	s.mu.Unlock()
}

// Drain lets every remaining goroutine run freely and unobserved so the bubble can end.
func (s *Sim) Drain() {
	if s.deadlocked {
		// the goroutines can never finish; they stay parked (durably) and the bubble ends with the
		// "blocked goroutines remain" panic that every harness recovers
		return
	}
	s.free.Store(true)
	s.cur = nil
	for round := 0; round < 1000; round++ {
		synctest.Wait()
		s.mu.Lock()
		var p []*G
		for _, g := range s.gs {
			if g.parked && !g.done {
				p = append(p, g)
				g.parked = false
			}
		}
		s.mu.Unlock()
		if len(p) == 0 {
			return
		}
		for _, g := range p {
			g.wake <- struct{}{}
		}
	}
}

// SimNow is the simulated wall clock (valid inside the bubble).
func SimNow() time.Time { return time.Now() }

// Advance lets d of simulated time pass (timers of the system under test fire on the way).
func (s *Sim) Advance(d time.Duration) { time.Sleep(d) }

// ---------------------------------------------------------------------------------------------------
// writers

// Writer is a simulator-owned io.Writer: every Write is recorded with the writing goroutine's logical
// id and (depending on ParkMode) is a mandatory scheduling point.
type Writer struct {
	Sim    *Sim
	Stream string
	Park   bool
}

func (w *Writer) Write(p []byte) (int, error) {
	s := w.Sim
	if s == nil {
		return len(p), nil
	}
	if s.free.Load() {
		// the run is over and the remaining goroutines are being drained (all at once, unscheduled): what they
		// still write is kept apart -- it is output that outlived the run
		s.lateMu.Lock()
		if len(s.Late) < 64 {
			s.Late = append(s.Late, w.Stream+"|"+string(p))
		}
		s.lateMu.Unlock()
		return len(p), nil
	}
	g := s.cur
	gid := "?"
	locked := false
	if g != nil {
		gid = g.ID
		locked = g.lockDepth > 0
	}
	s.mu.Lock()
	s.Chunks = append(s.Chunks, Chunk{Step: s.Steps, G: gid, Stream: w.Stream, Data: string(p), Locked: locked})
	s.mixString(gid)
	s.mixString(w.Stream)
	if s.Strip != "" && strings.Contains(string(p), s.Strip) {
		s.mixString(strings.ReplaceAll(string(p), s.Strip, "$D"))
	} else {
		s.mixString(string(p))
	}
	lineDone := false
	var trig bool
	if g != nil {
		buf := append(g.lineBuf[w.Stream], p...)
		for {
			i := indexByte(buf, '\n')
			if i < 0 {
				break
			}
			line := string(buf[:i])
			buf = buf[i+1:]
			s.Events = append(s.Events, Event{Seq: len(s.Events), Step: s.Steps, G: gid, Stream: w.Stream, Line: line})
			g.LastLine = line
			lineDone = true
			for _, t := range s.Triggers {
				if t.Kind == "event" && !t.fired && !t.pending && strings.Contains(line, t.Match) {
					t.seen++
					if t.seen >= t.Count {
						t.pending = true
						trig = true
					}
				}
			}
		}
		g.lineBuf[w.Stream] = buf
	}
	s.mu.Unlock()
	_ = trig
	if s.OnWrite != nil {
		s.OnWrite(g, w.Stream, p)
	}
	if w.Park && g != nil {
		switch s.ParkMode {
		case "chunk":
			s.park(g, SiteWrite)
		case "none":
		default:
			if lineDone {
				s.park(g, SiteWrite)
			}
		}
	}
	return len(p), nil
}

func indexByte(b []byte, c byte) int {
	for i, x := range b {
		if x == c {
			return i
		}
	}
	return -1
}

// Pending returns unterminated output per goroutine (used by byte-conservation oracles).
func (s *Sim) Pending(stream string) map[string]string {
	m := map[string]string{}
	for _, g := range s.gs {
		if b := g.lineBuf[stream]; len(b) > 0 {
			m[g.ID] = string(b)
		}
	}
	return m
}

// Goroutines reports how many goroutine records exist and how many are not finished.
func (s *Sim) Goroutines() (total, live int) {
	s.mu.Lock()
	defer s.mu.Unlock()
	for _, g := range s.gs {
		total++
		if !g.done {
			live++
		}
	}
	return
}

// BlockedSites lists where unfinished goroutines of a group sit (for deadlock reports).
func (s *Sim) BlockedSites(prefix string) []string {
	s.mu.Lock()
	defer s.mu.Unlock()
	var out []string
	for _, g := range s.gs {
		if g.done || !(g.ID == prefix || strings.HasPrefix(g.ID, prefix+".")) {
			continue
		}
		st := "running"
		if g.parked {
			st = "parked"
		} else if g.blocked {
			st = "blocked"
		}
		out = append(out, fmt.Sprintf("%s %s@%s", g.ID, st, SiteName(g.site)))
	}
	return out
}

// MapOrder replaces Go's per-iteration random map order for `range` statements over maps in instrumented
// code: the keys are sorted and then rotated / reversed by one draw from the run's choice stream, so the
// order is a function of the seed (and shrinks to plain sorted order).
func MapOrder[M ~map[K]V, K cmp.Ordered, V any](site int, m M) []K {
	keys := make([]K, 0, len(m))
	for k := range m {
		keys = append(keys, k)
	}
	slices.Sort(keys)
	s := S
	if s == nil || len(keys) < 2 || s.free.Load() || s.cur == nil {
		return keys
	}
	s.mu.Lock()
	d := s.Ch.Draw(2 * len(keys))
	s.Stats["map_order_draws"]++
	s.mu.Unlock()
	rot := d % len(keys)
	out := append(append(make([]K, 0, len(keys)), keys[rot:]...), keys[:rot]...)
	if d >= len(keys) {
		slices.Reverse(out)
	}
	return out
}
