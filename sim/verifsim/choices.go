package verifsim

import (
	"math/rand/v2"
)

// Choices is the single source of randomness of a run: program, configuration, yield mask, strategy,
// schedule picks and fault placement are all drawn from it, and the list of draws is the replay file.
type Choices struct {
	rng        *rand.Rand
	replay     []int
	replayMode bool
	pos        int
	Rec        []int
	Max        int // hard cap on draws (runaway guard); 0 = none
	Over       bool
}

func NewRandomChoices(seed uint64, run uint64) *Choices {
	return &Choices{rng: rand.New(rand.NewPCG(seed, run*0x9e3779b97f4a7c15+0x1234567))}
}

func NewReplayChoices(list []int) *Choices {
	return &Choices{replay: list, replayMode: true}
}

// Draw returns a value in [0,n). n <= 1 returns 0 without consuming anything.
func (c *Choices) Draw(n int) int {
	if n <= 1 {
		return 0
	}
	var v int
	if c.replayMode {
		if c.pos < len(c.replay) {
			v = c.replay[c.pos]
			if v < 0 {
				v = 0
			}
			v %= n
		}
		c.pos++
	} else {
		v = c.rng.IntN(n)
	}
	if c.Max > 0 && len(c.Rec) >= c.Max {
		c.Over = true
		return 0
	}
	c.Rec = append(c.Rec, v)
	return v
}

// Bool draws true with probability num/den; a zero draw is false so that shrinking switches features off.
func (c *Choices) Bool(num, den int) bool { return c.Draw(den) >= den-num }

// Pct draws true with probability p percent (zero draw = false).
func (c *Choices) Pct(p int) bool { return c.Draw(100) >= 100-p }

// Pick draws an index into a slice of length n.
func (c *Choices) Pick(n int) int { return c.Draw(n) }

// Shrink minimises a failing choice list. test must return true when the candidate still shows the
// same failure, and the normalised list the candidate run actually consumed.
func Shrink(list []int, budget int, test func([]int) (bool, []int)) ([]int, int) {
	best := append([]int(nil), list...)
	tries := 0
	try := func(c []int) bool {
		if tries >= budget {
			return false
		}
		tries++
		ok, used := test(c)
		if ok {
			if used != nil && lessList(used, best) {
				best = append([]int(nil), used...)
			} else if lessList(c, best) {
				best = append([]int(nil), c...)
			}
			return true
		}
		return false
	}
	improved := true
	for improved && tries < budget {
		improved = false
		// 1. delete blocks
		for size := len(best) / 2; size >= 1 && tries < budget; size /= 2 {
			for i := 0; i+size <= len(best) && tries < budget; {
				c := append(append([]int(nil), best[:i]...), best[i+size:]...)
				if try(c) {
					improved = true
				} else {
					i += size
				}
			}
		}
		// 2. zero blocks
		for size := len(best) / 2; size >= 1 && tries < budget; size /= 2 {
			for i := 0; i+size <= len(best) && tries < budget; i += size {
				allZero := true
				for _, v := range best[i : i+size] {
					if v != 0 {
						allZero = false
					}
				}
				if allZero {
					continue
				}
				c := append([]int(nil), best...)
				for k := i; k < i+size; k++ {
					c[k] = 0
				}
				if try(c) {
					improved = true
				}
			}
		}
		// 3. lower individual values
		for i := 0; i < len(best) && tries < budget; i++ {
			for i < len(best) && best[i] > 0 && tries < budget {
				c := append([]int(nil), best...)
				c[i] = best[i] / 2
				if !try(c) {
					if i >= len(best) {
						break
					}
					c = append([]int(nil), best...)
					c[i] = best[i] - 1
					if !try(c) {
						break
					}
				}
				improved = true
			}
		}
	}
	return best, tries
}

func lessList(a, b []int) bool {
	if len(a) != len(b) {
		return len(a) < len(b)
	}
	for i := range a {
		if a[i] != b[i] {
			return a[i] < b[i]
		}
	}
	return false
}
