package task_test

// Family R (C20): remote Taskfiles. A simulated HTTPS origin (http.DefaultClient.Transport), the simulated
// clock and a cache directory on real disk; histories of server transitions, clock advances and invocations
// with every combination of --yes / --download / --offline / --expiry / --insecure / --timeout and scripted
// prompt answers; faults: refuse, hang (-> timeout), 404, 500, wrong content type, short body, changed
// content, crash inside the cache writes, corrupted cache files.

import (
	"context"
	stderrors "errors"
	"fmt"
	"io"
	"net/http"
	"os"
	"path/filepath"
	"strings"
	"testing"
	"testing/synctest"
	"time"

	"github.com/go-task/task/v3"
	"github.com/go-task/task/v3/internal/experiments"
	vs "github.com/go-task/task/v3/internal/verifsim"
)

type rServer struct {
	sim     *vs.Sim
	state   string // up, refuse, hang, 404, 500, ctype, short
	version int
	reqs    int
	hangs   int
	invReqs int    // requests seen in the current invocation
	path    string // where the Taskfile lives
	nested  bool   // the Taskfile includes http://sim.test/inner.yml (plain http)
}

// the default Taskfile names a directory-style URL is probed for (documented list)
var rDefaultNames = []string{"Taskfile.yml", "taskfile.yml", "Taskfile.yaml", "taskfile.yaml", "Taskfile.dist.yml", "taskfile.dist.yml", "Taskfile.dist.yaml", "taskfile.dist.yaml"}

func rContentN(v int, nested bool) string {
	if nested {
		return fmt.Sprintf("version: '3'\nincludes:\n  inner: http://sim.test/inner.yml\ntasks:\n  hello:\n    cmds:\n      - echo \"R|v%d\"\n      - task: inner:hi\n", v)
	}
	return rContent(v)
}

func rContent(v int) string {
	return fmt.Sprintf("version: '3'\ntasks:\n  hello:\n    cmds:\n      - echo \"R|v%d\"\n", v)
}

type shortBody struct{ data []byte }

func (b *shortBody) Read(p []byte) (int, error) {
	if len(b.data) == 0 {
		return 0, io.ErrUnexpectedEOF
	}
	n := copy(p, b.data)
	b.data = b.data[n:]
	return n, nil
}
func (b *shortBody) Close() error { return nil }

func (s *rServer) RoundTrip(req *http.Request) (*http.Response, error) {
	s.reqs++
	s.sim.Point(vs.SiteNet)
	if req.URL.Host == "other.test" || req.URL.RawQuery == "rev=2" {
		// a second origin: always up, one fixed Taskfile at the same path as the first origin's
		h := http.Header{}
		h.Set("Content-Type", "text/yaml")
		r := &http.Response{StatusCode: 200, Status: "200", Header: h, Request: req, ProtoMajor: 1, ProtoMinor: 1, Body: io.NopCloser(strings.NewReader(""))}
		if req.URL.Path != "/tf.yml" {
			r.StatusCode, r.Status = 404, "404"
			return r, nil
		}
		if req.Method != "HEAD" {
			body := "version: '3'\ntasks:\n  hello:\n    cmds:\n      - echo \"R2|fixed\"\n"
			r.Body = io.NopCloser(strings.NewReader(body))
			r.ContentLength = int64(len(body))
		}
		return r, nil
	}
	s.invReqs++
	mk := func(code int, ctype, body string) *http.Response {
		h := http.Header{}
		h.Set("Content-Type", ctype)
		r := &http.Response{StatusCode: code, Status: fmt.Sprintf("%d", code), Header: h, Request: req, ProtoMajor: 1, ProtoMinor: 1}
		if req.Method == "HEAD" {
			r.Body = io.NopCloser(strings.NewReader(""))
		} else {
			r.Body = io.NopCloser(strings.NewReader(body))
			r.ContentLength = int64(len(body))
		}
		return r
	}
	state := s.state
	if state == "hang-late" {
		// the first request of an invocation is answered, every later one hangs
		state = "up"
		if s.invReqs > 1 {
			state = "hang"
		}
	}
	if req.URL.Path == "/inner.yml" && (state == "up" || state == "hang-get") {
		return mk(200, "text/yaml", "version: '3'\ntasks:\n  hi:\n    cmds:\n      - echo \"R|inner\"\n"), nil
	}
	if req.URL.Path != s.path && (state == "up" || state == "hang-get" || state == "ctype" || state == "short" || state == "500") {
		return mk(404, "text/plain", "not found"), nil
	}
	switch state {
	case "refuse":
		return nil, fmt.Errorf("dial tcp 203.0.113.1:443: connect: connection refused")
	case "hang-get":
		if req.Method == "HEAD" {
			return mk(200, "text/yaml", ""), nil
		}
		s.hangs++
		vs.Block0(vs.SiteNet, func() { <-req.Context().Done() })
		return nil, req.Context().Err()
	case "hang":
		s.hangs++
		vs.Block0(vs.SiteNet, func() { <-req.Context().Done() })
		return nil, req.Context().Err()
	case "404":
		return mk(404, "text/plain", "not found"), nil
	case "500":
		return mk(500, "text/plain", "boom"), nil
	case "ctype":
		return mk(200, "text/html", "<html>"), nil
	case "short":
		r := mk(200, "text/yaml", "")
		if req.Method != "HEAD" {
			c := rContentN(s.version, s.nested)
			r.Body = &shortBody{data: []byte(c[:len(c)/2])}
			r.ContentLength = int64(len(c))
		}
		return r, nil
	}
	return mk(200, "text/yaml", rContentN(s.version, s.nested)), nil
}

type rStep struct {
	Kind     string // server:<state>, bump, adv, run, crash, corrupt
	Yes      bool
	Download bool
	Offline  bool
	Expiry   time.Duration
	Timeout  time.Duration
	Answer   string // "", y, n, eof  ("" = no terminal)
	Adv      time.Duration
	Dry      bool // --dry: commands are printed, not run; a dry run is no way to approve anything
	FromSub  bool // the invocation starts in a sub-directory of the project (the Taskfile is found by walking up)
	CrashN   int
	Corrupt  string // content-other, content-garbage, checksum-del, timestamp-garbage
}

type rProg struct {
	Optional bool   // the remote include is marked optional: true
	Scheme   string // https, http
	Insecure bool
	DirURL   int  // 0: the include names the file; k>0: it names a directory and the file is the k-th default name
	Nested   bool // (https only) the remote Taskfile includes a plain-http Taskfile: refused without --insecure
	Second   bool // a second remote include, fixed content, same path: from another host, or (SecondQ) from the same host with a query string
	SecondQ  bool
	Steps    []rStep
}

func genR(ch *vs.Choices, tier string) *rProg {
	p := &rProg{Scheme: "https"}
	if ch.Bool(1, 8) {
		p.Scheme = "http"
		p.Insecure = ch.Bool(1, 2)
	}
	p.Optional = ch.Bool(1, 4)
	if ch.Bool(1, 4) {
		p.DirURL = 1 + ch.Draw(len(rDefaultNames))
	}
	if p.Scheme == "https" && ch.Bool(1, 12) {
		p.Nested = true
	}
	if p.Scheme == "https" && !p.Nested && !p.Optional && ch.Bool(1, 4) {
		p.Second = true
		p.SecondQ = p.DirURL == 0 && ch.Bool(1, 2)
	}
	n := 3 + ch.Draw(6)
	if tier == "thorough" {
		n = 3 + ch.Draw(10)
	}
	kinds := []string{"run", "run", "run", "run", "server", "server", "bump", "adv", "crash", "corrupt"}
	for i := 0; i < n; i++ {
		s := rStep{Kind: kinds[ch.Draw(len(kinds))]}
		if i == 0 {
			s.Kind = "run"
		}
		switch s.Kind {
		case "server":
			s.Kind = "server:" + []string{"up", "up", "refuse", "hang", "404", "500", "ctype", "short", "hang-get", "hang-late"}[ch.Draw(10)]
		case "adv":
			s.Adv = []time.Duration{time.Second, time.Minute, time.Hour, 25 * time.Hour, 24 * 8 * time.Hour}[ch.Draw(5)]
		case "corrupt":
			s.Corrupt = []string{"content-other", "content-garbage", "checksum-del", "timestamp-garbage"}[ch.Draw(4)]
		case "run", "crash":
			s.Yes = ch.Bool(1, 2)
			switch ch.Draw(4) {
			case 1:
				s.Download = true
			case 2:
				s.Offline = true
			}
			s.Expiry = []time.Duration{0, 0, time.Hour, 24 * time.Hour}[ch.Draw(4)]
			s.Timeout = []time.Duration{10 * time.Second, time.Second}[ch.Draw(2)]
			s.Answer = []string{"", "y", "n", "eof"}[ch.Draw(4)]
			s.FromSub = ch.Bool(1, 5)
			s.Dry = s.Kind == "run" && ch.Bool(1, 6)
			if s.Kind == "crash" {
				s.CrashN = 1 + ch.Draw(12)
			}
		}
		p.Steps = append(p.Steps, s)
	}
	return p
}

func (s rStep) String() string {
	switch s.Kind {
	case "adv":
		return fmt.Sprintf("clock +%v", s.Adv)
	case "corrupt":
		return "corrupt " + s.Corrupt
	case "run", "crash":
		a := []string{s.Kind}
		if s.Yes {
			a = append(a, "--yes")
		}
		if s.Download {
			a = append(a, "--download")
		}
		if s.Offline {
			a = append(a, "--offline")
		}
		if s.FromSub {
			a = append(a, "(from ./sub)")
		}
		if s.Dry {
			a = append(a, "--dry")
		}
		a = append(a, fmt.Sprintf("--expiry=%v --timeout=%v answer=%q", s.Expiry, s.Timeout, s.Answer))
		if s.Kind == "crash" {
			a = append(a, fmt.Sprintf("crash@cachewrite#%d", s.CrashN))
		}
		return strings.Join(a, " ")
	}
	return s.Kind
}

// runR: one generated history -- or, in the crash-point enumeration mode, one history re-executed once per crash
// point of one of its invocations (killed at the k-th scheduling point inside the cache code, k = 1, 2, ... until
// the invocation ends before the k-th point).
func runR(t *testing.T, ch *vs.Choices, prop, tier string, render bool) *vs.RunOut {
	p := genR(ch, tier)
	if ch.Bool(1, 4) {
		ci := -1
		for i, s := range p.Steps {
			if s.Kind == "crash" {
				ci = i
				break
			}
		}
		if ci < 0 {
			for i, s := range p.Steps {
				if s.Kind == "run" {
					p.Steps[i].Kind = "crash"
					ci = i
					break
				}
			}
		}
		if ci >= 0 {
			maxN := 40
			if tier == "thorough" {
				maxN = 150
			}
			var agg *vs.RunOut
			for n := 1; n <= maxN; n++ {
				p.Steps[ci].CrashN = n
				vs.Tick()
				o := runROne(t, ch, prop, tier, render, p)
				fired := o.Reach["fault:crash@cachewrite"] > 0
				if fired {
					o.Hit("fault_enumeration:crash_point")
				}
				agg = mergeRunOut(agg, o)
				if !fired {
					agg.Hit("fault_enumeration:histories_exhausted")
					break
				}
			}
			agg.Hit("fault_enumeration:histories")
			return agg
		}
	}
	return runROne(t, ch, prop, tier, render, p)
}

func runROne(t *testing.T, ch *vs.Choices, prop, tier string, render bool, p *rProg) *vs.RunOut {
	out := &vs.RunOut{Reach: map[string]int{}}
	experiments.RemoteTaskfiles = experiments.Experiment{Name: "REMOTE_TASKFILES", AllowedValues: []int{1}, Value: 1}
	var hs []string
	for _, s := range p.Steps {
		hs = append(hs, s.String())
	}
	url := p.Scheme + "://sim.test/tf.yml"
	srvPath := "/tf.yml"
	if p.DirURL > 0 {
		url = p.Scheme + "://sim.test/lib/"
		srvPath = "/lib/" + rDefaultNames[p.DirURL-1]
	}
	rootYAML := fmt.Sprintf("version: '3'\nsilent: true\nincludes:\n  r: %s\ntasks:\n  default:\n    cmds:\n      - task: r:hello\n", url)
	if p.Second {
		second := "https://other.test/tf.yml"
		if p.SecondQ {
			second = "https://sim.test/tf.yml?rev=2" // same host and path: only the query string tells the two files apart
		}
		rootYAML = fmt.Sprintf("version: '3'\nsilent: true\nincludes:\n  r: %s\n  r2: "+second+"\ntasks:\n  default:\n    cmds:\n      - task: r:hello\n      - task: r2:hello\n", url)
	}
	if p.Optional {
		// optional only excuses an include that cannot be located; it must not excuse a refused approval
		rootYAML = fmt.Sprintf("version: '3'\nsilent: true\nincludes:\n  r:\n    taskfile: %s\n    optional: true\ntasks:\n  default:\n    cmds:\n      - task: r:hello\n  local:\n    cmds:\n      - echo \"R|local\"\n", url)
	}
	out.Shape = vs.HashString(rootYAML + strings.Join(hs, "\n") + fmt.Sprint(p.Insecure, p.DirURL, p.Nested, p.Second, p.SecondQ))
	dir, err := newRunDir()
	if err != nil {
		out.HarnessError = err.Error()
		return out
	}
	defer os.RemoveAll(dir)
	if err := os.WriteFile(filepath.Join(dir, "Taskfile.yml"), []byte(rootYAML), 0o644); err != nil {
		out.HarnessError = err.Error()
		return out
	}
	_ = os.MkdirAll(filepath.Join(dir, "sub"), 0o755)
	origWD, _ := os.Getwd()
	defer os.Chdir(origWD)
	var trace []string
	var log []string
	oldRT := http.DefaultClient.Transport
	defer func() { http.DefaultClient.Transport = oldRT }()
	func() {
		defer func() {
			if r := recover(); r != nil {
				if !strings.Contains(fmt.Sprint(r), "deadlock") {
					panic(r)
				}
			}
		}()
		synctest.Test(t, func(t *testing.T) {
			sim := vs.NewSim(ch)
			sim.Strip = dir
			sim.KeepLog = render
			sim.Strategy = vs.NewStrategy(ch, []string{"random", "sticky"})
			out.Strategy = sim.Strategy.Name()
			force := []string{"taskfile/node_cache.go", "readRemoteNodeContent"}
			switch ch.Draw(2) {
			case 0:
				sim.SetMaskByFile(0, 1, 0, 1, force)
			case 1:
				sim.SetMaskByFile(1, 2, 1, 4, force)
			}
			vs.S = sim
			defer func() { vs.S = nil }()
			start := time.Now()
			srv := &rServer{sim: sim, state: "up", version: 1, path: srvPath, nested: p.Nested}
			http.DefaultClient.Transport = srv
			// model
			approved := 0             // version whose checksum the user last approved (0 = none)
			approvedBeforeCrash := -2 // see below: the approval on record if the last approval event was cut short by a crash
			cacheGood := false        // a copy has been downloaded and approved and nothing has damaged the cache since
			cacheVersion := 0         // version of that copy
			approved2 := false        // (second origin) the user approved its fixed content
			cacheGood2 := false
			cacheDir := filepath.Join(dir, ".task", "remote")
			for si, s := range p.Steps {
				desc := fmt.Sprintf("step %d: %s", si, s.String())
				trace = append(trace, desc)
				switch {
				case strings.HasPrefix(s.Kind, "server:"):
					srv.state = strings.TrimPrefix(s.Kind, "server:")
					out.Hit("fault:net_" + srv.state)
					continue
				case s.Kind == "bump":
					srv.version++
					out.Hit("fault:net_content_changed")
					continue
				case s.Kind == "adv":
					sim.Advance(s.Adv)
					out.Hit("fault:clock_jump")
					continue
				case s.Kind == "corrupt":
					ents, _ := os.ReadDir(cacheDir)
					for _, e := range ents {
						full := filepath.Join(cacheDir, e.Name())
						switch {
						case s.Corrupt == "content-other" && strings.HasSuffix(e.Name(), ".yaml"):
							_ = os.WriteFile(full, []byte(rContent(99)), 0o644)
							cacheGood, cacheGood2 = false, false
							out.Hit("fault:store_corrupt_content_replaced")
						case s.Corrupt == "content-garbage" && strings.HasSuffix(e.Name(), ".yaml"):
							_ = os.WriteFile(full, []byte("{{{ not yaml"), 0o644)
							cacheGood, cacheGood2 = false, false
							out.Hit("fault:store_corrupt_content_garbage")
						case s.Corrupt == "checksum-del" && strings.HasSuffix(e.Name(), ".checksum"):
							_ = os.Remove(full)
							cacheGood2, approved2 = false, false
							cacheGood = false // the record of what was approved is gone: the copy cannot be trusted any more
							out.Hit("fault:store_corrupt_checksum_deleted")
						case s.Corrupt == "timestamp-garbage" && strings.HasSuffix(e.Name(), ".timestamp"):
							_ = os.WriteFile(full, []byte("yesterday"), 0o644)
							out.Hit("fault:store_corrupt_timestamp")
						}
					}
					continue
				}
				// ---- an invocation ---------------------------------------------------------------
				gid := fmt.Sprintf("s%d", si)
				stdinPath := filepath.Join(dir, ".stdin-"+gid)
				_ = os.WriteFile(stdinPath, nil, 0o644)
				stdin, _ := os.Open(stdinPath)
				stdout := &vs.Writer{Sim: sim, Stream: gid, Park: false}
				stderr := &vs.Writer{Sim: sim, Stream: gid + "-err", Park: false}
				prompted := 0
				assumedYes := 0
				prompted2, assumedYes2 := 0, 0
				sim.OnWrite = func(g *vs.G, stream string, b []byte) {
					if stream != gid {
						return
					}
					txt := string(b)
					if !(strings.Contains(txt, "remote Taskfile") || strings.Contains(txt, "has changed since")) {
						return
					}
					second := strings.Contains(txt, "other.test") || strings.Contains(txt, "?rev=2")
					if strings.Contains(txt, "[assuming yes]") {
						if second {
							assumedYes2++
						} else {
							assumedYes++
						}
						return
					}
					if strings.HasSuffix(txt, "]: ") {
						if second {
							prompted2++
						} else {
							prompted++
						}
						if s.Answer == "y" || s.Answer == "n" {
							if f, err := os.OpenFile(stdinPath, os.O_APPEND|os.O_WRONLY, 0o644); err == nil {
								f.WriteString(s.Answer + "\n")
								f.Close()
							}
						}
					}
				}
				sim.Triggers = nil
				var trig *vs.Trigger
				if s.Kind == "crash" {
					trig = &vs.Trigger{Name: "crash@cachewrite", Kind: "site", Match: "taskfile/node_cache.go", Count: s.CrashN, Abandon: true}
					sim.Triggers = []*vs.Trigger{trig}
				}
				var runErr, setupErr error
				srv.invReqs = 0
				before := len(sim.Events)
				runDirOpt := task.WithDir(dir)
				if s.FromSub {
					// started in a sub-directory without --dir: the Taskfile is found by walking up
					_ = os.Chdir(filepath.Join(dir, "sub"))
					runDirOpt = task.WithDir("")
					out.Hit("invoked_from_subdirectory")
				}
				root := sim.Go(gid, func() {
					e := task.NewExecutor(runDirOpt, task.WithStdin(stdin), task.WithStdout(stdout), task.WithStderr(stderr),
						task.WithInsecure(p.Insecure), task.WithDry(s.Dry), task.WithDownload(s.Download), task.WithOffline(s.Offline), task.WithTimeout(s.Timeout),
						task.WithCacheExpiryDuration(s.Expiry), task.WithAssumeYes(s.Yes), task.WithAssumeTerm(s.Answer != ""), task.WithVersionCheck(true))
					if err := e.Setup(); err != nil {
						setupErr = err
						return
					}
					runErr = e.Run(context.Background(), &task.Call{Task: "default"})
				})
				oc := sim.Drive(root)
				stdin.Close()
				_ = os.Chdir(origWD)
				if oc == vs.Deadlock {
					out.Violate("C20", "invocation_never_returns|server="+srv.state, "%s never returned (simulated hour without progress): %v", desc, sim.BlockedSites(gid))
					return
				}
				if oc == vs.StepCap {
					out.Inconclusive = "stepcap"
					return
				}
				crashed := oc == vs.Abandoned
				err := setupErr
				if err == nil {
					err = runErr
				}
				code, _ := mapExit(err, false)
				ran := 0
				for _, ev := range sim.Events[before:] {
					if ev.Stream == gid && strings.Contains(ev.Line, "R|inner") {
						out.Violate("C20", "insecure_http_ran|nested_include", "%s: a Taskfile fetched over plain http (included by the https one) was executed without --insecure", desc)
					}
					if ev.Stream == gid && strings.HasPrefix(ev.Line, "R|v") {
						fmt.Sscanf(ev.Line, "R|v%d", &ran)
					}
					// the prompt has no newline: the marker may be glued to it
					if ev.Stream == gid && strings.Contains(ev.Line, "]: R|v") {
						fmt.Sscanf(ev.Line[strings.Index(ev.Line, "]: R|v")+3:], "R|v%d", &ran)
					}
				}
				nR, nR2 := 0, 0
				for _, ev := range sim.Events[before:] {
					if ev.Stream == gid {
						nR += strings.Count(ev.Line, "R|v")
						nR2 += strings.Count(ev.Line, "R2|fixed")
					}
				}
				if p.Second {
					if nR > 1 || nR2 > 1 {
						out.Violate("C20", "remote_files_mixed_up", "%s: the two remote includes (same path, different hosts) ran %d times the first origin's content and %d times the second's: one include got the other's file", desc, nR, nR2)
					}
					if (prompted2 > 0 && s.Answer == "y") || assumedYes2 > 0 {
						approved2 = true
					}
					if nR2 > 0 && !approved2 {
						out.Violate("C20", "unapproved_content_ran|second_origin", "%s: the second origin's Taskfile was executed without ever having been approved (or after its approval record was deleted)", desc)
					}
					if (prompted > 0 || prompted2 > 0) && s.Answer != "y" && !s.Yes && !crashed && (ran != 0 || nR2 > 0) {
						out.Violate("C20", "ran_after_declined_prompt", "%s: a prompt was answered %q but remote content was executed", desc, s.Answer)
					}
					out.Hit("second_origin")
				}
				trace = append(trace, vs.StripDir(fmt.Sprintf("   -> server=%s/v%d exit=%d crashed=%v prompted=%d ran=v%d err=%v", srv.state, srv.version, code, crashed, prompted, ran, err), dir))
				if crashed {
					out.Hit("fault:crash@cachewrite")
				}
				if prompted > 0 {
					out.Hit("prompt_shown")
					switch s.Answer {
					case "n":
						out.Hit("fault:prompt_no")
					case "eof":
						out.Hit("fault:prompt_eof")
					}
				}
				// approval events of this invocation: the user answered y to the prompt shown for the content the
				// server currently serves, or --yes accepted it ("[assuming yes]")
				if (assumedYes > 0 || assumedYes2 > 0) && !s.Yes {
					// "[assuming yes]" is what --yes prints: without --yes nobody approved anything
					how := "plain"
					if s.Dry {
						how = "dry"
					}
					out.Violate("C20", "approved_without_the_user|"+how, "%s: remote content was accepted with '[assuming yes]' although --yes was not given", desc)
				}
				approvedNow := false
				if (prompted > 0 && s.Answer == "y") || (assumedYes > 0 && s.Yes) {
					approvedNow = true
					if crashed {
						// the process was killed after the user (or --yes) had accepted the new content but possibly
						// before that acceptance was recorded: only durable state survives, so what is on record is
						// the old approval or the new one
						approvedBeforeCrash = approved
						out.Hit("approval_event_then_crash")
					} else {
						approvedBeforeCrash = -2
					}
					approved = srv.version
					out.Hit("approval_event")
					if srv.state == "ctype" {
						// (directory-style URL: the probe for default names accepts any 200 answer) what was shown and
						// approved is the HTML page, not a Taskfile version: it replaces whatever was cached
						approved, cacheGood = -1, false
						out.Hit("approved_non_taskfile_content")
					}
				}
				fetched := !s.Offline && srv.state == "up"
				// ---- safety --------------------------------------------------------------------------
				if p.Scheme == "http" && !p.Insecure {
					if ran != 0 {
						out.Violate("C20", "insecure_http_ran", "%s: plain http without --insecure executed v%d", desc, ran)
					} else if !crashed && code != 105 && !p.Optional {
						// (an optional include that cannot be constructed is skipped: the refusal then shows as a
						// missing task, not as 105; what matters is that nothing remote ran)
						out.Violate("C20", "insecure_http_status", "%s: plain http without --insecure: exit %d, want 105", desc, code)
					}
					continue
				}
				if p.Nested {
					// the included plain-http Taskfile is refused without --insecure: no invocation can succeed and none
					// may run anything remote -- before or after the outer file was approved or cached
					if ran != 0 {
						out.Violate("C20", "insecure_http_ran|nested_include", "%s: the https Taskfile includes a plain-http one and --insecure is not given, but v%d was executed", desc, ran)
					} else if !crashed && code == 0 {
						out.Violate("C20", "insecure_http_status|nested_include", "%s: the https Taskfile includes a plain-http one and --insecure is not given, but the invocation exited 0", desc)
					}
					out.Hit("nested_plain_http_include")
					continue
				}
				if ran != 0 && ran != approved && ran != approvedBeforeCrash {
					sig := "unapproved_content_ran"
					if ran == 99 {
						sig += "|cache_content_replaced"
					} else if !cacheGood {
						sig += "|after_cache_damage"
					}
					out.Violate("C20", sig, "%s: executed v%d but the user last approved v%d (server has v%d, prompted=%d assumed_yes=%d answer=%q)", desc, ran, approved, srv.version, prompted, assumedYes, s.Answer)
				}
				if prompted > 0 && s.Answer != "y" && !s.Yes && !crashed {
					if ran != 0 {
						out.Violate("C20", "ran_after_declined_prompt", "%s: prompt answered %q but v%d was executed", desc, s.Answer, ran)
					} else if code != 104 {
						out.Violate("C20", "declined_prompt_status", "%s: prompt answered %q, exit %d, want 104", desc, s.Answer, code)
					}
				}
				// ---- availability ----------------------------------------------------------------------
				netDown := srv.state == "refuse" || srv.state == "hang" || srv.state == "hang-get" || srv.state == "hang-late"
				if s.Dry {
					if ran != 0 || nR2 > 0 {
						out.Violate("C20", "dry_run_executed_remote_commands", "%s: a dry run executed commands of a remote Taskfile", desc)
					}
					out.Hit("dry_invocation")
				}
				if cacheGood && (!p.Second || cacheGood2) && !crashed && !s.Dry && (s.Offline || netDown) {
					if ran != cacheVersion || code != 0 || (p.Second && nR2 != 1) {
						how := "offline"
						if !s.Offline {
							how = "net_" + srv.state
							if s.Download {
								how += ",download"
							}
						}
						out.Violate("C20", "cache_not_used|"+how, "%s: an approved copy (v%d) is cached and the network is unavailable / --offline, but exit=%d ran=v%d (%s)", desc, cacheVersion, code, ran, vs.StripDir(fmt.Sprint(err), dir))
					} else {
						out.Hit("served_from_cache_while_unavailable")
					}
				}
				// ---- model update ----------------------------------------------------------------------
				if crashed {
					cacheGood, cacheGood2 = false, false // only durable state survives; the cache triples may be half written
					continue
				}
				if p.Second && code == 0 && nR2 > 0 && approved2 {
					cacheGood2 = true
				}
				if code == 0 && ran != 0 && ran == approved {
					cacheGood, cacheVersion = true, ran
				}
				if s.Dry && code == 0 && approvedNow && approved > 0 && fetched {
					// a dry run executes nothing, but it loads the Taskfile like any other run: content that was
					// downloaded and approved (--yes, or y at the prompt) during it is what the cache holds afterwards
					cacheGood, cacheVersion = true, approved
				} else if s.Dry && code == 0 && fetched && srv.version != cacheVersion {
					cacheGood = false // (what the dry run left in the cache is not tracked)
				}
				_ = fetched
			}
			out.Steps = sim.Steps
			out.SimSeconds = time.Since(start).Seconds()
			out.Hash = sim.Hash()
			log = sim.Log
			out.Reach["http_requests"] += srv.reqs
			if srv.hangs > 0 {
				out.Hit("fault:net_hang_timeout_elapsed")
			}
			sim.Drain()
		})
	}()
	nRun := 0
	for _, s := range p.Steps {
		if s.Kind == "run" || s.Kind == "crash" {
			nRun++
		}
	}
	out.NonTrivial = nRun >= 2
	if render {
		out.Rendered = map[string]any{"files": map[string]string{"Taskfile.yml": rootYAML}, "config": map[string]any{"insecure": p.Insecure, "dir_url": p.DirURL, "nested": p.Nested}, "history": hs, "trace": trace, "strategy": out.Strategy, "schedule": log, "steps": out.Steps}
	}
	_ = stderrors.Is
	return out
}
