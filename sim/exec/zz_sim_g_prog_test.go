package task_test

// Family G: task-graph programs. Harness-side AST, generator and YAML renderer.
// The reference model (zz_sim_g_model_test.go) interprets this AST, never Task's own.

import (
	"fmt"
	"sort"
	"strings"

	vs "github.com/go-task/task/v3/internal/verifsim"
)

const (
	gProbe = iota
	gCall
)

// V-passing modes of a reference
const (
	vNone    = iota // V not passed
	vLit            // literal value
	vInherit        // "{{.V}}" rendered in the caller
	vItem           // loop item
)

type gRef struct {
	Alias     bool   // the reference names the target by its alias
	WLit      string // what the '*' of a wildcard target stands for in this reference
	PassItem  bool   // (list loops) the call also passes ITEM: '{{.ITEM}}': the callee's own loops must still see their own items
	XC        bool   // (deferred call of a run: always task) the call passes XC: '{{.EXIT_CODE}}'
	ForKind   string // how the loop list is given: "" literal list, "var" (space separated variable), "split" (variable split at ','), "sources" (the task's sources; task t0 only)
	Target    int
	VMode     int
	VLit      string
	For       []string   // for-list items (nil = plain reference)
	Matrix    [][]string // two axes (nil = none); item label = a-b, row-major
	MatrixRef int        // bit 0: axis A is given as ref: <expression yielding the list>, bit 1: axis B
}

type gCmd struct {
	Kind      int
	Defer     bool
	Fail      int      // probe: exit code (0 = succeeds)
	Ign       bool     // ignore_error on the entry
	Ref       gRef     // call
	For       []string // probe loops
	Silent    bool
	DeferTplV bool   // deferred call passes V: '{{.V}}' (known-defect trigger, C02 only)
	ForKind   string // probe loops: as gRef.ForKind
	FailStmt  bool   // failing probe: the failure is a failing statement in the middle of the script ("false"), not an exit: the script stops there only because commands run with errexit
	Glued     bool   // probe: START and END lines come from one printf (two writes, no cancellation point between them)
}

type gTask struct {
	Idx    int
	Name   string
	Run    string // "", always, once, when_changed
	Deps   []gRef
	Cmds   []gCmd
	IgnErr bool
	Silent bool
	// guards
	Platform string // "", match, nomatch
	Requires string // "", "set" (V required, any), "enum" (V in [a,b])
	Precond  int    // 0 none 1 passing 2 failing
	Prompt   bool
	Internal bool
	VUse     string // "cmd" (default), "env": where a when_changed task lets V surface
	PrintXC  bool   // some deferred call passes XC to this task: its probes print it
	Wild     bool   // (run: always) declared as the wildcard task '<name>-*'; its probes print the match
	DynCount bool   // a task-level dynamic variable whose command gives a new value on every evaluation (it counts its own evaluations in a file): evaluated once per (command, dir, environment), every call of the task sees the same value
	DynFail  bool   // a task-level dynamic variable whose command fails: the task cannot be compiled (checked per call, before deps and deduplication)
	SrcLoop  bool   // (t0) the task has templated sources (method: none) some of its loops iterate over
	Dir      string
	DynVar   bool
}

type gRoot struct {
	Alias  bool
	Target int
	V      string
	HasV   bool
}

type gProg struct {
	Tasks                            []*gTask
	FileRun                          string
	Roots                            []gRoot
	Parallel                         bool
	Conc                             int
	Output                           string // "", group, prefixed
	GroupBegin, GroupEnd             bool
	ErrorOnly                        bool
	Force, ForceAll, Yes, AssumeTerm bool
	Answer                           string // "", "y", "n", "eof"
	ExitCodeFlag                     bool
	FileSilent                       bool
	SetPipefail                      bool   // Taskfile-level set: [pipefail]
	IncRun                           string // top-level run: of the included Taskfile ("" = none)
	CancelAtEvent                    int    // 0 = none; cancel the caller ctx at the k-th probe event
	IncDefaultV                      bool   // the included Taskfile declares a top-level var V ('incv'): call vars must still win
	IncSplit                         int    // 0 = single file; otherwise tasks with Idx >= IncSplit live in inc/Taskfile.yml, included as namespace "n"
}

// refName is the name by which task `to` is referenced from task `from` (or from the command line when from < 0).
func (p *gProg) refName(from, to int) string { return p.refNameA(from, to, false) }

// refNameA: alias=true names the target by its alias ("al-<name>"; aliases are namespaced like names).
func (p *gProg) refNameA(from, to int, alias bool) string { return p.refNameW(from, to, alias, "r") }

// refNameW: a wildcard task 'tN-*' is called as tN-<wlit> (never by alias); MATCH is then [<wlit>].
func (p *gProg) refNameW(from, to int, alias bool, wlit string) string {
	n := p.Tasks[to].Name
	if p.Tasks[to].Wild {
		alias = false
		n += "-" + wlit
	}
	if alias {
		n = "al-" + strings.ReplaceAll(n, ":", "-")
	}
	if p.IncSplit == 0 || to < p.IncSplit {
		return n
	}
	if from >= p.IncSplit {
		return n // both live in the included file: local name
	}
	return "n:" + n
}

type gBias struct {
	MaxTasks     int
	PFail        int // percent of probes that fail
	PIgnore      int
	PDedup       int // percent of tasks that are once/when_changed
	PDefer       int
	PCall        int
	PLoop        int
	PGuard       int
	PDeps        int // percent chance for each potential dep
	Parallel     bool
	Concs        []int
	Outputs      []string
	MaxInst      int
	VEnvSub      bool // allow when_changed tasks whose V surfaces only in env / sub-call vars (C06 known defect)
	DeferCallTpl bool // allow templated vars in deferred calls (C02 known defect)
	FailMix      bool // a third of the programs are failure-rich (failing commands under ignore_error callers)
	ForceFlags   bool
	Cancel       bool
	FanIn        bool
	Matrix       bool
	FailSibling  bool // a third of the programs get a failing leaf task that is made a sibling dependency of references to deduplicated tasks
	Wildcards    bool // a fifth of the run: always tasks are wildcard tasks
	DynCount     bool // deduplicated tasks may get a dynamic variable that is different on every evaluation
	IncRun       bool // the included Taskfile may declare its own top-level run: (which must not leak into the root's default)
	LoopKinds    bool // loops take their list from a variable (plain / split) or from the task's sources
	DynVars      bool // tasks get a dynamic (sh:) variable (race-sim: exercises the dynamic variable cache)
}

func effRun(p *gProg, t *gTask) string {
	r := t.Run
	if r == "" {
		r = p.FileRun
	}
	if r == "" {
		r = "always"
	}
	return r
}

var vPool = []string{"a", "b", "c"}

func genRef(ch *vs.Choices, p *gProg, from, n int, b gBias, allowLoop bool) (gRef, bool) {
	if from+1 >= n {
		return gRef{}, false
	}
	r := gRef{Target: from + 1 + ch.Draw(n-from-1)}
	r.Alias = ch.Bool(1, 5)
	r.PassItem = ch.Bool(1, 4)
	r.WLit = []string{"p", "q"}[ch.Draw(2)]
	if b.LoopKinds {
		r.ForKind = []string{"", "", "var", "split", "sources"}[ch.Draw(5)]
	}
	if b.FanIn && n-from-1 > 1 && ch.Bool(1, 2) {
		// bias towards the last tasks so that many callers share them
		r.Target = n - 1 - ch.Draw(2)
		if r.Target <= from {
			r.Target = from + 1
		}
	}
	switch ch.Draw(4) {
	case 0:
		r.VMode = vNone
	case 1, 2:
		r.VMode = vLit
		r.VLit = vPool[ch.Draw(len(vPool))]
		if b.VEnvSub && ch.Bool(1, 2) {
			// a second variable W (only rendered for targets whose variables surface in env only): the pair
			// (V,W) is written as a two-letter value, so (a,b) and (b,a) are different calls
			r.VLit += vPool[ch.Draw(len(vPool))]
		}
	case 3:
		r.VMode = vInherit
	}
	if allowLoop && ch.Pct(b.PLoop) {
		if b.Matrix && ch.Bool(1, 3) {
			r.Matrix = [][]string{[]string{"p", "q"}[:1+ch.Draw(2)], []string{"x", "y"}[:1+ch.Draw(2)]}
			r.MatrixRef = ch.Draw(4)
		} else {
			r.For = []string{"x", "y", "z"}[:1+ch.Draw(3)]
		}
		r.VMode = vItem
	}
	return r, true
}

func genG(ch *vs.Choices, b gBias) *gProg {
	p := &gProg{}
	if b.FailMix && ch.Bool(1, 3) {
		b.PFail, b.PIgnore = 25, 35
	}
	n := 2 + ch.Draw(b.MaxTasks-1)
	if ch.Bool(1, 6) {
		p.FileRun = []string{"once", "when_changed", "always"}[ch.Draw(3)]
	}
	p.FileSilent = ch.Bool(1, 2)
	p.SetPipefail = ch.Bool(1, 4)
	if n >= 3 && ch.Bool(1, 3) {
		p.IncSplit = 2 + ch.Draw(n-2)
		p.IncDefaultV = ch.Bool(1, 3)
		if b.IncRun && ch.Bool(1, 3) {
			p.IncRun = []string{"once", "when_changed"}[ch.Draw(2)]
		}
	}
	for i := 0; i < n; i++ {
		t := &gTask{Idx: i, Name: fmt.Sprintf("t%d", i)}
		if ch.Pct(b.PDedup) {
			t.Run = []string{"once", "when_changed"}[ch.Draw(2)]
		} else if ch.Bool(1, 8) {
			t.Run = "always"
		}
		// deps
		for k := 0; k < 3; k++ {
			if ch.Pct(b.PDeps) {
				if r, ok := genRef(ch, p, i, n, b, true); ok {
					t.Deps = append(t.Deps, r)
				}
			}
		}
		nc := 1 + ch.Draw(4)
		for k := 0; k < nc; k++ {
			c := gCmd{}
			if ch.Pct(b.PCall) {
				if r, ok := genRef(ch, p, i, n, b, true); ok {
					c.Kind = gCall
					c.Ref = r
				}
			}
			if c.Kind == gProbe {
				if ch.Pct(b.PFail) {
					c.Fail = 1 + ch.Draw(255)
					if ch.Bool(1, 4) {
						c.Fail, c.FailStmt = 1, true
					}
					if ch.Pct(b.PIgnore) {
						c.Ign = true
					}
				}
				if ch.Pct(b.PLoop) {
					c.For = []string{"x", "y", "z"}[:1+ch.Draw(3)]
					if b.LoopKinds {
						c.ForKind = []string{"", "", "var", "split", "sources"}[ch.Draw(5)]
					}
				}
				if b.PFail >= 25 {
					c.Glued = ch.Bool(2, 3) && c.Fail == 0 // failure-rich programs: most commands outlive a cancellation
				} else {
					c.Glued = ch.Bool(1, 3) && c.Fail == 0
				}
			}
			if ch.Pct(b.PDefer) {
				c.Defer = true
				if c.Kind == gCall {
					// a deferred call's vars are templated late; keep loops out of it
					c.Ref.For, c.Ref.Matrix = nil, nil
					if c.Ref.VMode == vItem {
						c.Ref.VMode = vNone
					}
					if c.Ref.VMode == vInherit {
						c.DeferTplV = true
					}
					c.Ref.XC = ch.Bool(1, 2)
				}
				c.For = nil
			}
			c.Silent = ch.Bool(1, 8)
			t.Cmds = append(t.Cmds, c)
		}
		if ch.Pct(b.PIgnore) {
			t.IgnErr = true
		}
		if ch.Pct(b.PGuard) {
			switch ch.Draw(6) {
			case 0:
				t.Platform = []string{"match", "nomatch"}[ch.Draw(2)]
			case 1:
				t.Requires = []string{"set", "enum"}[ch.Draw(2)]
			case 2:
				t.Precond = 1 + ch.Draw(2)
			case 3:
				t.Prompt = true
			case 4:
				t.Internal = true
			case 5:
				t.Precond = 2
			}
		}
		t.DynVar = b.DynVars && ch.Bool(1, 2)
		t.DynFail = b.DynVars && (b.PGuard > 0 || b.FailMix) && ch.Bool(1, 12)
		t.DynCount = b.DynCount && ch.Bool(1, 3)
		t.Wild = b.Wildcards && ch.Bool(1, 5)
		if b.VEnvSub && t.Run == "when_changed" && ch.Bool(1, 2) {
			t.VUse = "env"
		}
		p.Tasks = append(p.Tasks, t)
	}
	if b.FailSibling && ch.Bool(1, 3) {
		// a leaf that always fails, as a sibling of dependencies on deduplicated tasks: the failure cancels the
		// siblings' context while a shared execution that one of them started (or waits for) is under way
		tf := &gTask{Idx: n, Name: fmt.Sprintf("t%d", n), Run: "always", Cmds: []gCmd{{Kind: gProbe, Fail: 1 + ch.Draw(255)}}}
		used := false
		for _, t := range p.Tasks {
			// (also next to dependencies that call or depend on deduplicated tasks themselves)
			shared := false
			for _, d := range t.Deps {
				dt := p.Tasks[d.Target]
				if effRun(p, dt) != "always" {
					shared = true
				}
				for _, dd := range dt.Deps {
					if effRun(p, p.Tasks[dd.Target]) != "always" {
						shared = true
					}
				}
				callsShared := false
				for _, dc := range dt.Cmds {
					if dc.Kind == gCall && !dc.Defer && effRun(p, p.Tasks[dc.Ref.Target]) != "always" {
						shared, callsShared = true, true
					}
				}
				if callsShared && ch.Bool(1, 2) {
					// ... and a deferred command registered before that call: it must not run while the call is
					// still waiting for the shared execution
					dt.Cmds = append([]gCmd{{Kind: gProbe, Defer: true}}, dt.Cmds...)
				}
			}
			if (shared || len(t.Deps) >= 2) && ch.Bool(1, 2) {
				t.Deps = append(t.Deps, gRef{Target: n})
				used = true
			}
		}
		if used {
			p.Tasks = append(p.Tasks, tf)
			n++
		}
	}
	// deduplicated tasks may be given names that differ only before the last ':' ("q3:job", "q5:job"): the
	// identity of a run: once task is its whole name
	if ch.Bool(1, 4) {
		for _, t := range p.Tasks {
			if effRun(p, t) != "always" {
				t.Name = fmt.Sprintf("q%d:job", t.Idx)
			}
		}
	}
	// roots
	nr := 1
	if b.Parallel && ch.Bool(1, 3) {
		nr = 2 + ch.Draw(2)
		p.Parallel = ch.Bool(3, 4)
	}
	for k := 0; k < nr; k++ {
		r := gRoot{Target: ch.Draw(min(n, 2)), Alias: ch.Bool(1, 5)}
		if ch.Bool(1, 2) {
			r.HasV = true
			r.V = vPool[ch.Draw(len(vPool))]
		}
		p.Roots = append(p.Roots, r)
	}
	if len(b.Concs) > 0 {
		p.Conc = b.Concs[ch.Draw(len(b.Concs))]
	}
	if len(b.Outputs) > 0 {
		p.Output = b.Outputs[ch.Draw(len(b.Outputs))]
		if p.Output == "group" {
			p.GroupBegin = ch.Bool(1, 2)
			p.GroupEnd = ch.Bool(1, 2)
			p.ErrorOnly = ch.Bool(1, 4)
		}
	}
	if b.ForceFlags {
		switch ch.Draw(4) {
		case 1:
			p.Force = true
		case 2:
			p.ForceAll = true
		}
	}
	if b.PGuard > 0 {
		switch ch.Draw(4) {
		case 0:
			p.Yes = true
		case 1:
			p.AssumeTerm = true
			p.Answer = []string{"y", "n", "eof", "yes", "junk"}[ch.Draw(5)]
		}
	}
	if b.PGuard > 0 && n >= 2 && ch.Bool(1, 5) {
		// the same guarded, deduplicated task called several times in a row with independently drawn values: a
		// requires/enum guard is a property of each call, not of the one shared execution
		tg := p.Tasks[1+ch.Draw(n-1)]
		tg.Requires = []string{"set", "enum"}[ch.Draw(2)]
		tg.Run = []string{"once", "when_changed"}[ch.Draw(2)]
		tg.Platform, tg.Precond, tg.Prompt, tg.Internal = "", 0, false, false
		for k := 0; k < 2+ch.Draw(2); k++ {
			r := gRef{Target: tg.Idx}
			if ch.Bool(4, 5) {
				r.VMode, r.VLit = vLit, vPool[ch.Draw(len(vPool))]
			}
			p.Tasks[0].Cmds = append(p.Tasks[0].Cmds, gCmd{Kind: gCall, Ref: r})
		}
	}
	for i := range p.Roots {
		if effRun(p, p.Tasks[p.Roots[i].Target]) == "when_changed" {
			p.Roots[i].HasV = true
		}
	}
	p.ExitCodeFlag = ch.Bool(1, 2)
	if b.Cancel && ch.Bool(1, 3) {
		p.CancelAtEvent = 1 + ch.Draw(12)
	}
	for i := range p.Roots {
		if p.Tasks[p.Roots[i].Target].DynCount {
			p.Roots[i].Alias = false
		}
	}
	gSanitize(p, b)
	return p
}

// gSanitize enforces the structural rules the model relies on (deterministically).
func gSanitize(p *gProg, b gBias) {
	for _, t := range p.Tasks {
		run := effRun(p, t)
		fix := func(r *gRef) {
			tr := effRun(p, p.Tasks[r.Target])
			if tr == "once" && p.Tasks[r.Target].Requires == "" {
				// a once task runs with whatever its first caller passed: never pass V to it (unless it has a
				// requires guard: that one is evaluated per call, before deduplication)
				if r.VMode != vNone {
					r.VMode = vNone
				}
				// loops over a once task are legal (all iterations share one execution)
			}
			if p.Tasks[r.Target].DynCount {
				// a dynamic variable is evaluated once per (command, dir, environment), and the name a task was called
				// by is part of that environment ($ALIAS): a task with a counting variable is always called by name
				r.Alias = false
			}
			if tr != "always" {
				r.PassItem = false // (an extra variable would be one more dimension of a when_changed task's identity)
			}
			if run == "once" && r.VMode == vInherit {
				r.VMode = vNone // a once task has no V of its own
			}
			if r.VMode == vLit && len(r.VLit) == 2 && p.Tasks[r.Target].VUse != "env" {
				r.VLit = r.VLit[:1]
			}
			if tr == "when_changed" && r.VMode == vNone {
				// "V not passed" and "V passed as empty string" are different variable sets but print the
				// same instance id: a when_changed task is always called with an explicit V
				r.VMode, r.VLit = vLit, ""
			}
		}
		loopFix := func(items *[]string, kind *string, isMatrix bool) {
			if *items == nil || isMatrix {
				*kind = ""
				return
			}
			if *kind == "sources" {
				if t.Idx != 0 {
					*kind = "var"
					return
				}
				t.SrcLoop = true
				*items = []string{"sx1.dep", "sx2.dep", "sx3.dep"}[:len(*items)]
			}
		}
		nSrc := 0
		for i := range t.Deps {
			if t.Deps[i].For != nil && t.Deps[i].ForKind == "sources" && t.Idx == 0 {
				nSrc = max(nSrc, len(t.Deps[i].For))
			}
		}
		for i := range t.Cmds {
			if t.Cmds[i].Kind == gCall && t.Cmds[i].Ref.For != nil && t.Cmds[i].Ref.ForKind == "sources" && t.Idx == 0 {
				nSrc = max(nSrc, len(t.Cmds[i].Ref.For))
			}
			if t.Cmds[i].Kind == gProbe && t.Cmds[i].For != nil && t.Cmds[i].ForKind == "sources" && t.Idx == 0 && !t.Cmds[i].Defer {
				nSrc = max(nSrc, len(t.Cmds[i].For))
			}
		}
		for i := range t.Deps {
			loopFix(&t.Deps[i].For, &t.Deps[i].ForKind, t.Deps[i].Matrix != nil)
			if t.Deps[i].ForKind == "sources" {
				t.Deps[i].For = []string{"sx1.dep", "sx2.dep", "sx3.dep"}[:nSrc] // every sources loop of the task sees the same files
			}
		}
		for i := range t.Cmds {
			c := &t.Cmds[i]
			if c.Kind == gCall {
				if c.Defer {
					c.Ref.ForKind = ""
				}
				loopFix(&c.Ref.For, &c.Ref.ForKind, c.Ref.Matrix != nil)
				if c.Ref.ForKind == "sources" {
					c.Ref.For = []string{"sx1.dep", "sx2.dep", "sx3.dep"}[:nSrc]
				}
			} else {
				if c.Defer {
					c.ForKind = ""
				}
				loopFix(&c.For, &c.ForKind, false)
				if c.ForKind == "sources" {
					c.For = []string{"sx1.dep", "sx2.dep", "sx3.dep"}[:nSrc]
				}
			}
		}
		if t.DynFail && t.Platform == "nomatch" {
			t.DynFail = false
		}
		if t.Wild && (run != "always" || t.SrcLoop) {
			t.Wild = false
		}
		for i := range t.Deps {
			fix(&t.Deps[i])
		}
		for i := range t.Cmds {
			if t.Cmds[i].Kind == gCall {
				fix(&t.Cmds[i].Ref)
				if t.Cmds[i].Ref.XC {
					if tg := p.Tasks[t.Cmds[i].Ref.Target]; t.Cmds[i].Defer && effRun(p, tg) == "always" {
						tg.PrintXC = true
					} else {
						t.Cmds[i].Ref.XC = false
					}
				}
				if t.Cmds[i].Defer && t.Cmds[i].Ref.VMode != vInherit {
					t.Cmds[i].DeferTplV = false
				}
			}
		}
		if t.VUse != "" && run != "when_changed" {
			t.VUse = ""
		}
		if run == "when_changed" && !b.VEnvSub {
			// the when_changed hash only sees variables that surface in a compiled string (known defect, C06):
			// outside C06's own mode every when_changed task starts with a plain probe that prints V
			t.Cmds[0] = gCmd{Kind: gProbe, Fail: t.Cmds[0].Fail, Ign: t.Cmds[0].Ign}
			if t.Cmds[0].Kind != gProbe {
				t.Cmds[0].Fail = 0
			}
		}

	}
	// internal root targets are only useful for C13; otherwise strip
	if b.PGuard == 0 {
		for _, t := range p.Tasks {
			t.Internal = false
		}
	}
	// instance budget
	for iter := 0; iter < 200; iter++ {
		m := newGModel(p)
		if m.build(b.MaxInst) {
			return
		}
		// drop the last reference of the lowest-index task that still has two or more
		dropped := false
		for _, t := range p.Tasks {
			refs := len(t.Deps)
			for _, c := range t.Cmds {
				if c.Kind == gCall {
					refs++
				}
			}
			if refs < 1 {
				continue
			}
			if len(t.Deps) > 0 {
				t.Deps = t.Deps[:len(t.Deps)-1]
				dropped = true
				break
			}
			for i := len(t.Cmds) - 1; i >= 0; i-- {
				if t.Cmds[i].Kind == gCall {
					t.Cmds[i] = gCmd{Kind: gProbe, Defer: t.Cmds[i].Defer}
					dropped = true
					break
				}
			}
			if dropped {
				break
			}
		}
		if !dropped {
			return
		}
	}
}

// ---------------------------------------------------------------------------------------------------
// rendering

func yq(s string) string { return "'" + strings.ReplaceAll(s, "'", "''") + "'" }

// pExpr is the template text a task uses for its own instance id.
func pExpr(p *gProg, t *gTask) string {
	switch effRun(p, t) {
	case "once":
		return "@" + t.Name
	case "when_changed":
		switch t.VUse {
		case "env":
			return "@" + t.Name + "($EV$EW)"
		}
		return "@" + t.Name + "({{.V}})"
	}
	return "{{.P}}"
}

func labelExpr(idx int, loop bool, matrix bool) string {
	if matrix {
		return fmt.Sprintf("%d.{{.ITEM.A}}-{{.ITEM.B}}", idx)
	}
	if loop {
		return fmt.Sprintf("%d.{{.ITEM}}", idx)
	}
	return fmt.Sprintf("%d", idx)
}

func renderRefVars(p *gProg, from *gTask, r gRef, edge string, deferTpl bool) string {
	tgt := p.Tasks[r.Target]
	var kv []string
	if effRun(p, tgt) == "always" {
		pe := pExpr(p, from)
		if from.VUse == "env" {
			pe = "@" + from.Name + "({{.V}}{{.W}})" // $EV / $EW only exist inside the task's own shell commands
		}
		kv = append(kv, fmt.Sprintf("P: %s", yq(pe+"/"+edge)))
	}
	switch r.VMode {
	case vLit:
		if len(r.VLit) == 2 {
			kv = append(kv, fmt.Sprintf("V: %s, W: %s", yq(r.VLit[:1]), yq(r.VLit[1:])))
		} else {
			kv = append(kv, fmt.Sprintf("V: %s", yq(r.VLit)))
		}
	case vInherit:
		kv = append(kv, "V: '{{.V}}'")
	case vItem:
		if r.Matrix != nil {
			kv = append(kv, "V: '{{.ITEM.A}}-{{.ITEM.B}}'")
		} else {
			kv = append(kv, "V: '{{.ITEM}}'")
		}
	}
	if r.PassItem && r.For != nil && r.Matrix == nil {
		kv = append(kv, "ITEM: '{{.ITEM}}'")
	}
	if r.XC {
		kv = append(kv, "XC: '{{.EXIT_CODE}}'")
	}
	if len(kv) == 0 {
		return ""
	}
	return "vars: {" + strings.Join(kv, ", ") + "}"
}

// loopSpec renders a non-matrix loop header and, for variable loops, the task-level variable that carries the list.
func loopSpec(items []string, kind, varName string) (string, string) {
	switch kind {
	case "var":
		return fmt.Sprintf("for: {var: %s}", varName), fmt.Sprintf("%s: '%s'", varName, strings.Join(items, " "))
	case "split":
		return fmt.Sprintf("for: {var: %s, split: ','}", varName), fmt.Sprintf("%s: '%s'", varName, strings.Join(items, ","))
	case "sources":
		return "for: sources", ""
	}
	return fmt.Sprintf("for: [%s]", strings.Join(items, ", ")), ""
}

func renderFor(r gRef, varName string) string {
	if r.For != nil && r.Matrix == nil {
		s, _ := loopSpec(r.For, r.ForKind, varName)
		return s
	}
	if r.Matrix != nil {
		axis := func(i int) string {
			if r.MatrixRef&(1<<i) != 0 {
				return fmt.Sprintf("{ref: 'concat (list) (splitList \" \" \"%s\")'}", strings.Join(r.Matrix[i], " "))
			}
			return "[" + strings.Join(r.Matrix[i], ", ") + "]"
		}
		return fmt.Sprintf("for: {matrix: {A: %s, B: %s}}", axis(0), axis(1))
	}
	if r.For != nil {
		return fmt.Sprintf("for: [%s]", strings.Join(r.For, ", "))
	}
	return ""
}

func probeText(p *gProg, t *gTask, idx int, c gCmd) string {
	pe := pExpr(p, t)
	lab := labelExpr(idx, c.For != nil, false)
	extra := "V={{.V}}"
	if effRun(p, t) == "once" {
		extra = "V="
	}
	if t.VUse == "env" {
		extra = "V=$EV$EW"
	}
	if c.Defer {
		extra += "|X={{.EXIT_CODE}}"
	}
	if t.PrintXC {
		extra += "|XC={{.XC}}"
	}
	if t.DynVar {
		extra += "|DYN={{.DYN}}"
	}
	if t.Wild {
		extra += "|M={{if .MATCH}}{{index .MATCH 0}}{{end}}" // (listing compiles the task without a match)
	}
	q := `"`
	s := fmt.Sprintf("echo %sS|%s|%s|%s|%s%s", q, pe, t.Name, lab, extra, q)
	if c.Fail > 0 && c.FailStmt {
		return s + fmt.Sprintf("; false; echo %sE|%s|%s|%s%s", q, pe, t.Name, lab, q)
	}
	if c.Fail > 0 {
		return s + fmt.Sprintf("; exit %d", c.Fail)
	}
	if c.Glued {
		// one builtin, two writes: a command that is under way when its task is cancelled still finishes (like a
		// process that does not die at once) -- work that outlives a cancellation stays visible
		return fmt.Sprintf("printf '%%s\\n' %sS|%s|%s|%s|%s%s %sE|%s|%s|%s%s", q, pe, t.Name, lab, extra, q, q, pe, t.Name, lab, q)
	}
	return s + fmt.Sprintf("; echo %sE|%s|%s|%s%s", q, pe, t.Name, lab, q)
}

// Files renders the program: the root Taskfile and, if the program is split, the included one.
func (p *gProg) Files() map[string]string {
	m := map[string]string{"Taskfile.yml": p.render(0, len(p.Tasks), true)}
	if p.IncSplit > 0 {
		m["Taskfile.yml"] = p.render(0, p.IncSplit, true)
		m["inc/Taskfile.yml"] = p.render(p.IncSplit, len(p.Tasks), false)
	}
	if len(p.Tasks) > 0 && p.Tasks[0].SrcLoop {
		n := 0
		t := p.Tasks[0]
		for _, d := range t.Deps {
			if d.ForKind == "sources" {
				n = max(n, len(d.For))
			}
		}
		for _, c := range t.Cmds {
			if c.Kind == gCall && c.Ref.ForKind == "sources" {
				n = max(n, len(c.Ref.For))
			}
			if c.Kind == gProbe && c.ForKind == "sources" {
				n = max(n, len(c.For))
			}
		}
		for _, f := range []string{"sx1.dep", "sx2.dep", "sx3.dep"}[:n] {
			m[f] = "source file " + f + "\n"
		}
	}
	return m
}

// YAML is the concatenation of all files (used for hashing and error messages).
func (p *gProg) YAML() string {
	f := p.Files()
	s := f["Taskfile.yml"]
	if inc, ok := f["inc/Taskfile.yml"]; ok {
		s += "--- inc/Taskfile.yml\n" + inc
	}
	return s
}

func (p *gProg) render(lo, hi int, root bool) string {
	var sb strings.Builder
	sb.WriteString("version: '3'\n")
	if !root {
		if p.IncDefaultV {
			sb.WriteString("vars:\n  V: incv\n")
		}
		if p.IncRun != "" {
			fmt.Fprintf(&sb, "run: %s\n", p.IncRun) // (has no effect: the default is the root Taskfile's)
		}
		sb.WriteString("tasks:\n")
	}
	if root && p.FileRun != "" {
		fmt.Fprintf(&sb, "run: %s\n", p.FileRun)
	}
	if root && p.FileSilent {
		sb.WriteString("silent: true\n")
	}
	if root && p.SetPipefail {
		sb.WriteString("set: [pipefail]\n") // shell options are added to errexit, they do not replace it
	}
	if root && p.IncSplit > 0 {
		if p.IncDefaultV || len(p.Tasks)%2 == 0 {
			// long form ("advanced import"): the tasks get the include's vars and the included Taskfile's vars
			sb.WriteString("includes:\n  n:\n    taskfile: ./inc\n    vars: {IV: iv}\n")
		} else {
			sb.WriteString("includes:\n  n: ./inc\n")
		}
	}
	out := p.Output
	if !root {
		out = ""
	}
	switch out {
	case "prefixed":
		sb.WriteString("output: prefixed\n")
	case "group":
		sb.WriteString("output:\n  group:\n")
		if p.GroupBegin {
			sb.WriteString("    begin: 'B|{{.TASK}}'\n")
		}
		if p.GroupEnd {
			sb.WriteString("    end: 'F|{{.TASK}}'\n")
		}
		if p.ErrorOnly {
			sb.WriteString("    error_only: true\n")
		}
		if !p.GroupBegin && !p.GroupEnd && !p.ErrorOnly {
			sb.WriteString("    error_only: false\n")
		}
	}
	if root {
		sb.WriteString("tasks:\n")
	}
	for _, t := range p.Tasks[lo:hi] {
		if t.Wild {
			fmt.Fprintf(&sb, "  %s:\n", yq(t.Name+"-*"))
			fmt.Fprintf(&sb, "    desc: task %s\n", t.Name)
		} else {
			fmt.Fprintf(&sb, "  %s:\n", yq(t.Name))
			fmt.Fprintf(&sb, "    desc: task %s\n", t.Name)
			fmt.Fprintf(&sb, "    aliases: [%s]\n", "al-"+strings.ReplaceAll(t.Name, ":", "-"))
		}
		if t.Run != "" {
			fmt.Fprintf(&sb, "    run: %s\n", t.Run)
		}
		if t.IgnErr {
			sb.WriteString("    ignore_error: true\n")
		}
		if t.Silent {
			sb.WriteString("    silent: true\n")
		}
		if t.Internal {
			sb.WriteString("    internal: true\n")
		}
		switch t.Platform {
		case "match":
			sb.WriteString("    platforms: [linux]\n")
		case "nomatch":
			sb.WriteString("    platforms: [windows]\n")
		}
		switch t.Requires {
		case "set":
			sb.WriteString("    requires:\n      vars: [V]\n")
		case "enum":
			sb.WriteString("    requires:\n      vars:\n        - name: V\n          enum: [a, b]\n")
		}
		switch t.Precond {
		case 1:
			sb.WriteString("    preconditions:\n      - sh: test 1 = 1\n        msg: pre-ok\n")
		case 2:
			sb.WriteString("    preconditions:\n      - sh: test 1 = 2\n        msg: pre-fail\n")
		}
		if t.Prompt {
			fmt.Fprintf(&sb, "    prompt: PROMPT-%s\n", t.Name)
		}
		if t.VUse == "env" {
			sb.WriteString("    env:\n      EV: '{{.V}}'\n      EW: '{{.W}}'\n")
		}
		var tvars []string
		if t.DynVar {
			tvars = append(tvars, fmt.Sprintf("DYN:\n        sh: echo dyn-%s", t.Name))
		}
		if t.DynFail {
			tvars = append(tvars, "DF:\n        sh: echo partial-output; exit 3") // (what a failing command printed belongs to nobody)
		}
		if t.DynCount {
			f := "{{.ROOT_DIR}}/cnt-" + strings.ReplaceAll(t.Name, ":", "-")
			tvars = append(tvars, fmt.Sprintf("DC:\n        sh: 'echo x >> %s; n=0; while read l; do n=$((n+1)); done < %s; echo $n'", f, f))
		}
		if t.SrcLoop {
			tvars = append(tvars, "SD: sx")
		}
		for k, d := range t.Deps {
			if d.For != nil && d.Matrix == nil {
				if _, v := loopSpec(d.For, d.ForKind, fmt.Sprintf("LD%d", k)); v != "" {
					tvars = append(tvars, v)
				}
			}
		}
		for k, c := range t.Cmds {
			if c.Kind == gCall && c.Ref.For != nil && c.Ref.Matrix == nil {
				if _, v := loopSpec(c.Ref.For, c.Ref.ForKind, fmt.Sprintf("LC%d", k)); v != "" {
					tvars = append(tvars, v)
				}
			}
			if c.Kind == gProbe && c.For != nil {
				if _, v := loopSpec(c.For, c.ForKind, fmt.Sprintf("LC%d", k)); v != "" {
					tvars = append(tvars, v)
				}
			}
		}
		if len(tvars) > 0 {
			sb.WriteString("    vars:\n")
			for _, v := range tvars {
				fmt.Fprintf(&sb, "      %s\n", v)
			}
		}
		if t.SrcLoop {
			// templated sources, never "up to date"
			sb.WriteString("    method: none\n    sources: ['{{.SD}}*.dep']\n")
		}
		if len(t.Deps) > 0 {
			sb.WriteString("    deps:\n")
			for k, d := range t.Deps {
				edge := "d" + labelExpr(k, d.For != nil, d.Matrix != nil)
				first := true
				item := func(s string) {
					if s == "" {
						return
					}
					if first {
						fmt.Fprintf(&sb, "      - %s\n", s)
						first = false
					} else {
						fmt.Fprintf(&sb, "        %s\n", s)
					}
				}
				item(renderFor(d, fmt.Sprintf("LD%d", k)))
				item("task: " + yq(p.refNameW(t.Idx, d.Target, d.Alias, d.WLit)))
				item(renderRefVars(p, t, d, edge, false))
			}
		}
		sb.WriteString("    cmds:\n")
		for k, c := range t.Cmds {
			first := true
			item := func(s string) {
				if s == "" {
					return
				}
				if first {
					fmt.Fprintf(&sb, "      - %s\n", s)
					first = false
				} else {
					fmt.Fprintf(&sb, "        %s\n", s)
				}
			}
			if c.Kind == gProbe {
				if c.Defer {
					fmt.Fprintf(&sb, "      - defer: %s\n", yq(probeText(p, t, k, c)))
					continue
				}
				if c.For != nil {
					ls, _ := loopSpec(c.For, c.ForKind, fmt.Sprintf("LC%d", k))
					item(ls)
				}
				item("cmd: " + yq(probeText(p, t, k, c)))
				if c.Ign {
					item("ignore_error: true")
				}
				if c.Silent {
					item("silent: true")
				}
				continue
			}
			edge := "c" + labelExpr(k, c.Ref.For != nil, c.Ref.Matrix != nil)
			if c.Defer {
				v := renderRefVars(p, t, c.Ref, edge, c.DeferTplV)
				fmt.Fprintf(&sb, "      - defer:\n          task: %s\n", yq(p.refNameW(t.Idx, c.Ref.Target, c.Ref.Alias, c.Ref.WLit)))
				if v != "" {
					fmt.Fprintf(&sb, "          %s\n", v)
				}
				continue
			}
			item(renderFor(c.Ref, fmt.Sprintf("LC%d", k)))
			item("task: " + yq(p.refNameW(t.Idx, c.Ref.Target, c.Ref.Alias, c.Ref.WLit)))
			item(renderRefVars(p, t, c.Ref, edge, false))
			if c.Silent {
				item("silent: true")
			}
		}
	}
	return sb.String()
}

func (p *gProg) Config() map[string]any {
	roots := []string{}
	for i, r := range p.Roots {
		s := p.refNameA(-1, r.Target, r.Alias)
		if effRun(p, p.Tasks[r.Target]) == "always" {
			s += fmt.Sprintf(" P=r%d", i)
		}
		if r.HasV {
			s += " V=" + r.V
		}
		roots = append(roots, s)
	}
	m := map[string]any{"roots": roots, "parallel": p.Parallel, "concurrency": p.Conc}
	if p.Force {
		m["force"] = true
	}
	if p.ForceAll {
		m["force_all"] = true
	}
	if p.Yes {
		m["yes"] = true
	}
	if p.AssumeTerm {
		m["terminal"] = true
		m["answer"] = p.Answer
	}
	if p.ExitCodeFlag {
		m["exit_code_flag"] = true
	}
	if p.CancelAtEvent > 0 {
		m["cancel_at_event"] = p.CancelAtEvent
	}
	return m
}

func sortedKeys[M ~map[string]V, V any](m M) []string {
	ks := make([]string, 0, len(m))
	for k := range m {
		ks = append(ks, k)
	}
	sort.Strings(ks)
	return ks
}
