package task_test

// Reference model for family G ("G-model"): interprets the harness AST, builds the instance tree of a
// run and checks a recorded probe history event by event (is this event enabled in the model at this
// point?). It never predicts an interleaving; it only states what must already have happened.

import (
	"fmt"
	"math"
	"strconv"
	"strings"
)

const inf = math.MaxInt32

type gEnt struct {
	Idx         int    // index in cmds
	Lab         string // "2" or "2.x"
	Kind        int
	Defer       bool
	Fail        int
	Ign         bool
	Callee      *gInst
	NoDeferVars bool // deferred call with templated vars (known defect trigger)
}

type gInst struct {
	T      *gTask
	P      string
	V      string
	Shared bool
	Deps   []*gInst
	Ents   []*gEnt
	Guard  string // "", requires, enum, precond, prompt_noterm, prompt_declined, internal
	Skip   bool   // platform mismatch: silent success, nothing runs
	Root   bool
	// parent edge (for non-shared, non-root instances)
	Parent    *gInst
	ParentDep bool
	ParentEnt *gEnt
	M         string // (wildcard task) what the '*' stood for in the call that created this instance
	XCFrom    *gEnt  // the deferred call entry (of Parent) that passes XC: '{{.EXIT_CODE}}' to this instance
	// static result
	resDone bool
	resOK   bool
	resKind string // "exit", "guard"
	codes   map[int]bool
	// trace facts
	sSeq          map[string]int // label -> seq of S event
	eSeq          map[string]int
	okMemo, okAtV int
	fdMemo        bool
	fdAtV         int
	firstOwn      int
}

type gModel struct {
	deferAlias map[string]*gEnt
	p          *gProg
	roots      []*gInst
	byP        map[string]*gInst
	order      []*gInst
	over       bool
	budget     int
}

func newGModel(p *gProg) *gModel { return &gModel{p: p, byP: map[string]*gInst{}} }

func (m *gModel) build(budget int) bool {
	m.budget = budget
	for i, r := range m.p.Roots {
		t := m.p.Tasks[r.Target]
		var in *gInst
		switch effRun(m.p, t) {
		case "always":
			in = m.inst(t, "r"+strconv.Itoa(i), r.V, r.HasV)
		default:
			in = m.inst(t, "", r.V, r.HasV)
		}
		if in == nil {
			return false
		}
		in.Root = true
		if t.Wild {
			in.M = "r"
		}
		m.roots = append(m.roots, in)
	}
	return !m.over
}

func (m *gModel) key(t *gTask, P, V string) string {
	switch effRun(m.p, t) {
	case "once":
		return "@" + t.Name
	case "when_changed":
		return "@" + t.Name + "(" + V + ")"
	}
	return P
}

// inst returns the instance of task t reached with instance path P and variable V.
func (m *gModel) inst(t *gTask, P, V string, hasV bool) *gInst {
	if m.over {
		return nil
	}
	run := effRun(m.p, t)
	if run == "once" {
		if (t.Requires != "" || t.DynFail) && t.Platform != "nomatch" {
			// the requires guard of a run: once task is evaluated per call, before the call is deduplicated: a
			// call that trips it fails by itself (a private, empty instance) and never joins the shared execution
			gv, gh := V, hasV
			if !gh && m.p.IncDefaultV {
				gv, gh = "incv", true
			}
			g := ""
			switch {
			case t.Requires != "" && !gh:
				g = "requires"
			case t.DynFail:
				g = "dynvar"
			case t.Requires == "enum" && gv != "a" && gv != "b":
				g = "enum"
			}
			if g != "" {
				if len(m.byP) >= m.budget {
					m.over = true
					return nil
				}
				k := fmt.Sprintf("!guard%d:%s@%s", len(m.order), P, t.Name)
				in := &gInst{T: t, P: k, V: gv, Guard: g, sSeq: map[string]int{}, eSeq: map[string]int{}, firstOwn: inf}
				m.byP[k] = in
				m.order = append(m.order, in)
				return in
			}
		}
		V = ""
	}
	k := m.key(t, P, V)
	if in, ok := m.byP[k]; ok {
		return in
	}
	if len(m.byP) >= m.budget {
		m.over = true
		return nil
	}
	if !hasV && m.p.IncDefaultV && run != "once" {
		V = "incv" // nobody passed V: the included Taskfile's top-level default is what every task sees
	}
	in := &gInst{T: t, P: k, V: V, Shared: run != "always", sSeq: map[string]int{}, eSeq: map[string]int{}, firstOwn: inf}
	m.byP[k] = in
	m.order = append(m.order, in)
	// guards (static)
	if m.p.IncDefaultV {
		hasV = true // the included Taskfile's top-level V is merged into the global vars: V is always defined
	}
	switch {
	case t.Platform == "nomatch":
		in.Skip = true
	case run == "once":
		// evaluated per call, above
	case t.Requires == "set" && !hasV:
		in.Guard = "requires"
	case t.Requires == "enum" && !hasV:
		in.Guard = "requires"
	case t.DynFail:
		in.Guard = "dynvar" // the task's variables cannot be evaluated: it fails before its deps run
	case t.Requires == "enum" && V != "a" && V != "b":
		in.Guard = "enum"
	}
	if in.Skip {
		return in
	}
	if in.Guard != "" {
		return in // requires is checked before deps run
	}
	// deps
	for k, d := range t.Deps {
		for _, it := range expandRef(d) {
			lab := strconv.Itoa(k)
			if it.loop {
				lab += "." + it.item
			}
			c := m.refInst(in, d, it, "d"+lab)
			if c == nil {
				return nil
			}
			if !c.Shared {
				c.Parent, c.ParentDep = in, true
			}
			in.Deps = append(in.Deps, c)
		}
	}
	// guards evaluated after deps: precondition, prompt
	// entries
	for k, c := range t.Cmds {
		if c.Kind == gProbe {
			if c.For != nil && !c.Defer {
				for _, it := range c.For {
					in.Ents = append(in.Ents, &gEnt{Idx: k, Lab: fmt.Sprintf("%d.%s", k, it), Kind: gProbe, Fail: c.Fail, Ign: c.Ign})
				}
			} else {
				in.Ents = append(in.Ents, &gEnt{Idx: k, Lab: strconv.Itoa(k), Kind: gProbe, Defer: c.Defer, Fail: c.Fail, Ign: c.Ign})
			}
			continue
		}
		for _, it := range expandRef(c.Ref) {
			lab := strconv.Itoa(k)
			if it.loop {
				lab += "." + it.item
			}
			e := &gEnt{Idx: k, Lab: lab, Kind: gCall, Defer: c.Defer, NoDeferVars: c.DeferTplV}
			if c.Defer && effRun(m.p, m.p.Tasks[c.Ref.Target]) == "always" {
				// what a callee-scope evaluation of P: '{{.P}}/c<lab>' would produce (used only to name the finding)
				if m.deferAlias == nil {
					m.deferAlias = map[string]*gEnt{}
				}
				m.deferAlias["/c"+lab] = e
			}
			cal := m.refInst(in, c.Ref, it, "c"+lab)
			if cal == nil {
				return nil
			}
			if !cal.Shared {
				cal.Parent, cal.ParentEnt = in, e
				if c.Defer && c.Ref.XC {
					cal.XCFrom = e
				}
			}
			e.Callee = cal
			in.Ents = append(in.Ents, e)
		}
	}
	return in
}

type refItem struct {
	loop bool
	item string
}

func expandRef(r gRef) []refItem {
	if r.Matrix != nil {
		var out []refItem
		for _, a := range r.Matrix[0] {
			for _, b := range r.Matrix[1] {
				out = append(out, refItem{true, a + "-" + b})
			}
		}
		return out
	}
	if r.For != nil {
		var out []refItem
		for _, it := range r.For {
			out = append(out, refItem{true, it})
		}
		return out
	}
	return []refItem{{}}
}

func (m *gModel) refInst(from *gInst, r gRef, it refItem, edge string) *gInst {
	t := m.p.Tasks[r.Target]
	V, hasV := "", false
	switch r.VMode {
	case vLit:
		V, hasV = r.VLit, true
	case vInherit:
		V, hasV = from.V, true
		if len(V) == 2 && from.T.VUse == "env" {
			V = V[:1] // the two-letter value stands for (V,W); '{{.V}}' is its first component
		}
	case vItem:
		V, hasV = it.item, true
	}
	in := m.inst(t, from.P+"/"+edge, V, hasV)
	if in != nil && t.Wild {
		in.M = r.WLit
	}
	return in
}

// ---------------------------------------------------------------------------------------------------
// static result ("what a sequential, cancellation-free execution would do")

func (m *gModel) guardOf(in *gInst) string {
	if in.Guard != "" {
		return in.Guard
	}
	t := in.T
	if t.Precond == 2 {
		if m.p.ForceAll || (m.p.Force && in.Root) {
			return "precond|forced"
		}
		return "precond"
	}
	if t.Prompt && !m.p.Yes {
		if !m.p.AssumeTerm {
			return "prompt_noterm"
		}
		if m.p.Answer != "y" && m.p.Answer != "yes" {
			return "prompt_declined"
		}
	}
	return ""
}

func (m *gModel) res(in *gInst) bool {
	if in.resDone {
		return in.resOK
	}
	in.resDone = true
	in.codes = map[int]bool{}
	if in.Skip {
		in.resOK = true
		return true
	}
	if in.Guard != "" {
		in.resOK, in.resKind = false, "guard"
		return false
	}
	ok := true
	for _, d := range in.Deps {
		if !m.res(d) {
			ok = false
			if d.resKind == "exit" {
				for c := range d.codes {
					in.codes[c] = true
				}
				if in.resKind == "" {
					in.resKind = "exit"
				}
			} else {
				in.resKind = "guard"
			}
		}
	}
	if !ok {
		if in.resKind == "" {
			in.resKind = "guard"
		}
		// mixed: some deps fail by exit, some by guard -> either may surface; keep "mixed" as guard+codes
		in.resOK = false
		return false
	}
	if g := m.guardOf(in); g != "" {
		in.Guard = g
		in.resOK, in.resKind = false, "guard"
		return false
	}
	for _, e := range in.Ents {
		if e.Defer {
			if e.Callee != nil {
				m.res(e.Callee)
			}
			continue
		}
		if e.Kind == gProbe {
			if e.Fail > 0 && !e.Ign && !in.T.IgnErr {
				in.resOK, in.resKind = false, "exit"
				in.codes[e.Fail] = true
				m.resRest(in, e)
				return false
			}
			continue
		}
		if !m.res(e.Callee) {
			if e.Callee.resKind == "exit" && in.T.IgnErr {
				continue // absorbed
			}
			in.resOK, in.resKind = false, e.Callee.resKind
			for c := range e.Callee.codes {
				in.codes[c] = true
			}
			m.resRest(in, e)
			return false
		}
	}
	in.resOK = true
	return true
}

// resRest computes static results of callees behind the stop point too (they must exist in the memo).
func (m *gModel) resRest(in *gInst, stop *gEnt) {
	for _, e := range in.Ents {
		if e.Callee != nil {
			m.res(e.Callee)
		}
	}
}

// failureSources counts the instances that fail by themselves (own failing command or own guard).
func (m *gModel) failureSources() int {
	n := 0
	for _, in := range m.order {
		if m.res(in) {
			continue
		}
		if in.Guard != "" {
			n++
			continue
		}
		depFail := false
		for _, d := range in.Deps {
			if !m.res(d) {
				depFail = true
			}
		}
		if depFail {
			continue
		}
		if sp := m.stopPos(in); sp >= 0 && in.Ents[sp].Kind == gProbe {
			n++
		}
	}
	return n
}

// stopIdx is the position in Ents of the entry at which the normal phase statically stops (-1: runs through).
func (m *gModel) stopPos(in *gInst) int {
	for i, e := range in.Ents {
		if e.Defer {
			continue
		}
		if e.Kind == gProbe {
			if e.Fail > 0 && !e.Ign && !in.T.IgnErr {
				return i
			}
			continue
		}
		if !m.res(e.Callee) && !(e.Callee.resKind == "exit" && in.T.IgnErr) {
			return i
		}
	}
	return -1
}

// ---------------------------------------------------------------------------------------------------
// trace facts

type pEv struct {
	Seq   int
	Kind  byte // 'S' or 'E'
	P     string
	Task  string
	Lab   string
	Extra map[string]string
	G     string
}

func parseProbe(seq int, g, line string) (pEv, bool) {
	if len(line) < 2 || (line[0] != 'S' && line[0] != 'E') || line[1] != '|' {
		return pEv{}, false
	}
	f := strings.Split(line, "|")
	if len(f) < 4 {
		return pEv{}, false
	}
	ev := pEv{Seq: seq, Kind: line[0], P: f[1], Task: f[2], Lab: f[3], Extra: map[string]string{}, G: g}
	for _, kv := range f[4:] {
		if i := strings.IndexByte(kv, '='); i >= 0 {
			ev.Extra[kv[:i]] = kv[i+1:]
		}
	}
	return ev, true
}

func (m *gModel) ent(in *gInst, lab string) *gEnt {
	for _, e := range in.Ents {
		if e.Kind == gProbe && e.Lab == lab {
			return e
		}
	}
	return nil
}

// entDone: sequence number after which entry e of in counts as completed (inf = never / not yet).
func (m *gModel) entDone(in *gInst, e *gEnt) int {
	if e.Kind == gProbe {
		if e.Fail > 0 {
			if e.Defer || e.Ign || in.T.IgnErr {
				if s, ok := in.sSeq[e.Lab]; ok {
					return s
				}
			}
			return inf
		}
		if s, ok := in.eSeq[e.Lab]; ok {
			return s
		}
		return inf
	}
	c := e.Callee
	if m.res(c) {
		return m.okAt(c)
	}
	if e.Defer {
		return m.failDoneAt(c)
	}
	if c.resKind == "exit" && in.T.IgnErr {
		return m.failDoneAt(c)
	}
	return inf
}

// okAt: sequence number after which instance in has completely and successfully finished.
func (m *gModel) okAt(in *gInst) int {
	if in.okMemo == 1 {
		return in.okAtV
	}
	in.okMemo = 1
	in.okAtV = inf // cycle guard (graphs are acyclic)
	v := -1
	if in.Skip {
		in.okAtV = -1
		return -1
	}
	if !m.res(in) {
		in.okAtV = inf
		return inf
	}
	for _, d := range in.Deps {
		v = max(v, m.okAt(d))
	}
	for _, e := range in.Ents {
		v = max(v, m.entDone(in, e))
	}
	in.okAtV = v
	return v
}

// failDoneAt: for a statically failing instance, the point after which its failure has been observed
// and the deferred entries registered before the stop have completed. -1 where nothing is observable.
func (m *gModel) failDoneAt(in *gInst) int {
	if in.fdMemo {
		return in.fdAtV
	}
	in.fdMemo = true
	in.fdAtV = -1
	if in.Skip || in.Guard != "" {
		return -1
	}
	for _, d := range in.Deps {
		if !m.res(d) {
			return -1 // failed in the dependency phase: nothing of its own to observe
		}
	}
	sp := m.stopPos(in)
	if sp < 0 {
		return -1
	}
	v := -1
	st := in.Ents[sp]
	if st.Kind == gProbe {
		if s, ok := in.sSeq[st.Lab]; ok {
			v = s
		} else {
			v = inf
		}
	} else {
		v = m.failDoneAt(st.Callee)
	}
	for i := 0; i < sp; i++ {
		if in.Ents[i].Defer {
			v = max(v, m.entDone(in, in.Ents[i]))
		}
	}
	in.fdAtV = v
	return v
}

// gVerdict is one failed enabledness condition.
type gVerdict struct {
	Prop, Sig, Msg string
}

type gChecker struct {
	cancelPossible bool
	m              *gModel
	evs            []pEv
	out            []gVerdict
	seenSig        map[string]bool
	openMax        int
	firstDeferAt   map[*gInst]int
	subtreeMemo    map[*gInst][]*gInst
}

// ownSubtree: the instances whose activity belongs to a call of instance c and to nothing else -- c, what it
// reaches through deps, call entries and defers without passing a deduplicated instance, and every deduplicated
// instance all of whose references (root calls included) lie inside that set (so only this subtree can have
// started it, and every reference to it waits for it). A task call returns only when all of that is over:
// dependencies are joined, waiters of a shared execution wait for its end.
func (c *gChecker) ownSubtree(root *gInst) []*gInst {
	if v, ok := c.subtreeMemo[root]; ok {
		return v
	}
	in := map[*gInst]bool{}
	var walk func(x *gInst)
	walk = func(x *gInst) {
		if in[x] {
			return
		}
		in[x] = true
		for _, d := range x.Deps {
			if !d.Shared {
				walk(d)
			}
		}
		for _, e := range x.Ents {
			if e.Callee != nil && !e.Callee.Shared {
				walk(e.Callee)
			}
		}
	}
	if !root.Shared {
		walk(root)
	}
	refs := map[*gInst][]*gInst{} // shared instance -> instances referring to it
	rootRef := map[*gInst]bool{}
	for _, r := range c.m.roots {
		rootRef[r] = true
	}
	for _, x := range c.m.order {
		for _, d := range x.Deps {
			if d.Shared {
				refs[d] = append(refs[d], x)
			}
		}
		for _, e := range x.Ents {
			if e.Callee != nil && e.Callee.Shared {
				refs[e.Callee] = append(refs[e.Callee], x)
			}
		}
	}
	for changed := true; changed; {
		changed = false
		for _, x := range c.m.order {
			if !x.Shared || in[x] || rootRef[x] || len(refs[x]) == 0 {
				continue
			}
			all := true
			for _, r := range refs[x] {
				if !in[r] {
					all = false
				}
			}
			if all {
				walk(x)
				changed = true
			}
		}
	}
	var out []*gInst
	for _, x := range c.m.order {
		if in[x] {
			out = append(out, x)
		}
	}
	if c.subtreeMemo == nil {
		c.subtreeMemo = map[*gInst][]*gInst{}
	}
	c.subtreeMemo[root] = out
	return out
}

func ownLast(x *gInst) int {
	v := -1
	for _, s := range x.sSeq {
		v = max(v, s)
	}
	for _, s := range x.eSeq {
		v = max(v, s)
	}
	return v
}

// quiescentCalls: entry e of in runs at t, so every task-call entry of in that was entered before (for a normal
// entry: the normal entries before it; for a deferred one: every normal entry) has returned -- whether it
// succeeded, failed or was cancelled -- and nothing of its own subtree may still produce events.
func (c *gChecker) quiescentCalls(in *gInst, e *gEnt, pos, t int, why string) bool {
	ok := true
	for i, x := range in.Ents {
		if x.Defer || x.Kind != gCall || x == e || (!e.Defer && i >= pos) {
			continue
		}
		if x.Callee.Shared {
			continue // (covered by shared_callee_not_finished / call_returned_before_shared_callee_finished)
		}
		for _, y := range c.ownSubtree(x.Callee) {
			if le := ownLast(y); le > t {
				kind := "plain"
				if y.Shared {
					kind = "shared_exclusive"
				}
				c.add("C02", "call_returned_while_callee_subtree_active|"+kind, "%s: entry %s of %s ran at %d, so its call entry %s (%s) had returned, but %s, which belongs to that call alone, still produced an event at %d", why, e.Lab, in.P, t, x.Lab, x.Callee.P, y.P, le)
				ok = false
			}
		}
	}
	return ok
}

func (c *gChecker) add(prop, sig, format string, a ...any) {
	k := prop + "|" + sig
	if c.seenSig[k] {
		return
	}
	c.seenSig[k] = true
	c.out = append(c.out, gVerdict{prop, sig, fmt.Sprintf(format, a...)})
}

// sharedTag names the facts about a deduplicated instance that matter for a finding's identity.
func sharedTag(m *gModel, in *gInst) string {
	s := effRun(m.p, in.T)
	if in.T.VUse == "env" {
		s += ",var_only_in_env"
	}
	return s
}

// culprit walks from an instance that is not (yet) complete to the deepest sub-instance responsible.
func (c *gChecker) culprit(in *gInst) *gInst {
	m := c.m
	for _, d := range in.Deps {
		if m.okAt(d) >= inf {
			return c.culprit(d)
		}
	}
	for _, e := range in.Ents {
		if e.Callee != nil && m.entDone(in, e) >= inf {
			return c.culprit(e.Callee)
		}
	}
	return in
}

func depSig(m *gModel, d *gInst) string {
	kind := "plain"
	if d.Shared {
		kind = "shared"
	}
	st := "incomplete"
	if !m.res(d) {
		st = "failed_" + d.resKind
	}
	cu := (&gChecker{m: m}).culprit(d)
	if cu != d && cu.Shared {
		st += "|culprit_shared:" + sharedTag(m, cu)
	} else if d.Shared {
		st += "|" + sharedTag(m, d)
	}
	return kind + "_dep_" + st
}

// phaseOK checks the conditions for instance `in` to be executing (its dependency phase or commands) at time t
// as far as its ancestors are concerned.
func (c *gChecker) chainOK(in *gInst, t int) bool {
	if in.Root || in.Shared || in.Parent == nil {
		return true
	}
	a := in.Parent
	if in.ParentDep {
		if a.Skip || (a.Guard != "" && (a.Guard == "requires" || a.Guard == "enum")) {
			c.add("C13", "dep_of_guarded_task_ran|"+a.Guard, "instance %s ran although its parent %s is guarded out (%s)", in.P, a.P, a.Guard)
			return false
		}
		if a.firstOwn < t {
			c.add("C01", "dep_started_after_parent_cmds", "dependency %s of %s produced an event at %d after a command of %s had started at %d", in.P, a.P, t, a.P, a.firstOwn)
			return false
		}
		return c.chainOK(a, t)
	}
	return c.entryEnabled(a, in.ParentEnt, t, "via "+in.P)
}

// entryEnabled: may entry e of instance in be executing at time t?
func (c *gChecker) entryEnabled(in *gInst, e *gEnt, t int, why string) bool {
	m := c.m
	ok := true
	if in.Skip {
		c.add("C13", "platform_mismatch_ran", "%s: task %s is not for this platform but entry %s ran", why, in.P, e.Lab)
		return false
	}
	if g := in.Guard; g != "" {
		c.add("C13", "guard_ignored|"+g, "%s: entry %s of %s ran although guard %q trips", why, e.Lab, in.P, g)
		return false
	}
	for _, d := range in.Deps {
		if m.okAt(d) >= t {
			c.add("C01", depSig(m, d), "%s: entry %s of %s at %d but dependency %s had not finished successfully (okAt=%s)", why, e.Lab, in.P, t, d.P, seqStr(m.okAt(d)))
			if cu := c.culprit(d); d.Shared || cu.Shared {
				// "every referencing task waits for the one real execution and observes its outcome"
				c.add("C06", "shared_dep_not_awaited|"+sharedTag(m, cu), "%s: entry %s of %s at %d although the shared execution %s it depends on had not finished successfully", why, e.Lab, in.P, t, cu.P)
			}
			ok = false
		}
	}
	if g := m.guardOf(in); g != "" {
		c.add("C13", "guard_ignored|"+g, "%s: entry %s of %s ran although guard %q trips", why, e.Lab, in.P, g)
		return false
	}
	pos := -1
	for i, x := range in.Ents {
		if x == e {
			pos = i
		}
	}
	if !e.Defer {
		for i := 0; i < pos; i++ {
			x := in.Ents[i]
			if x.Defer {
				continue
			}
			if m.entDone(in, x) >= t {
				// why is the previous entry not done?
				failing := (x.Kind == gProbe && x.Fail > 0) || (x.Kind == gCall && !m.res(x.Callee))
				if failing {
					kind := "probe"
					if x.Kind == gCall {
						kind = "call_" + x.Callee.resKind
						if x.Callee.Shared {
							kind = "shared_" + kind
						}
					}
					c.add("C03", "continued_after_failure|"+kind, "%s: entry %s of %s ran at %d although earlier entry %s fails", why, e.Lab, in.P, t, x.Lab)
				} else if x.Kind == gCall && x.Callee.Shared {
					c.add("C06", "shared_callee_not_finished|"+sharedTag(m, c.culprit(x.Callee)), "%s: entry %s of %s ran at %d before shared callee %s (entry %s) had finished", why, e.Lab, in.P, t, x.Callee.P, x.Lab)
				} else {
					c.add("C02", "entry_before_previous_done", "%s: entry %s of %s ran at %d before earlier entry %s had finished (done=%s)", why, e.Lab, in.P, t, x.Lab, seqStr(m.entDone(in, x)))
				}
				ok = false
			}
		}
		if fd, has := c.firstDeferAt[in]; has && fd < t {
			c.add("C14", "normal_entry_after_defer", "%s: entry %s of %s ran at %d after a deferred entry had already started at %d", why, e.Lab, in.P, t, fd)
			ok = false
		}
	} else {
		// deferred entry: every normal entry before its position must be done
		for i := 0; i < pos; i++ {
			x := in.Ents[i]
			if x.Defer {
				continue
			}
			if m.entDone(in, x) >= t {
				c.add("C14", "defer_ran_unregistered", "%s: deferred entry %s of %s ran at %d although entry %s before it never completed", why, e.Lab, in.P, t, x.Lab)
				ok = false
			}
		}
		// reverse order: every later deferred entry that ran at all must already be done
		for i := pos + 1; i < len(in.Ents); i++ {
			x := in.Ents[i]
			if !x.Defer {
				continue
			}
			if c.entStarted(in, x) < inf && m.entDone(in, x) >= t {
				c.add("C14", "defer_order", "%s: deferred entry %s of %s ran at %d before later-registered deferred entry %s had finished", why, e.Lab, in.P, t, x.Lab)
				ok = false
			}
		}
		// A task whose entries before a task-call entry have all completed does enter that call, and the
		// call returns only when the callee's (possibly shared) execution is over: if the callee still
		// produces events after one of the caller's deferred entries has started, the call returned early.
		uncertain := false
		for _, x := range in.Ents {
			if x.Defer {
				continue
			}
			if m.entDone(in, x) < t {
				failing := (x.Kind == gProbe && x.Fail > 0) || (x.Kind == gCall && !m.res(x.Callee))
				if failing && c.cancelPossible {
					// a failing command (or a failing task call) that is forgiven leaves no END line: whether it failed
					// (and the task went on) or was cut short by a cancellation (and the task stopped there) cannot be
					// told apart
					uncertain = true
				}
				continue
			}
			if uncertain {
				break
			}
			if x.Kind == gCall && x.Callee.Shared && !x.Callee.Skip && x.Callee.Guard != "requires" && x.Callee.Guard != "enum" {
				if le := c.lastEvent(x.Callee); le > t {
					c.add("C02", "call_returned_before_shared_callee_finished", "%s: deferred entry %s of %s ran at %d, but its call entry %s to %s had been entered and that execution was still producing events at %d", why, e.Lab, in.P, t, x.Lab, x.Callee.P, le)
					ok = false
				}
			}
			break // only the first entry that is not done can be the one in progress
		}
		// the normal phase must be over: no normal entry may be in progress
		for i := pos + 1; i < len(in.Ents); i++ {
			x := in.Ents[i]
			if x.Defer {
				continue
			}
			if c.entInProgress(in, x, t) {
				c.add("C14", "defer_during_normal_phase", "%s: deferred entry %s of %s ran at %d while entry %s was still running", why, e.Lab, in.P, t, x.Lab)
				ok = false
			}
		}
	}
	if !c.chainOK(in, t) {
		ok = false
	}
	if !c.quiescentCalls(in, e, pos, t, why) {
		ok = false
	}
	return ok
}

// entStarted: first observed event of an entry (inf if none).
func (c *gChecker) entStarted(in *gInst, e *gEnt) int {
	if e.Kind == gProbe {
		if s, ok := in.sSeq[e.Lab]; ok {
			return s
		}
		return inf
	}
	if e.Callee.Shared {
		return inf // whoever ran the shared execution, it says nothing about this entry
	}
	return c.firstEvent(e.Callee)
}

func (c *gChecker) firstEvent(in *gInst) int {
	v := in.firstOwn
	for _, d := range in.Deps {
		if !d.Shared {
			v = min(v, c.firstEvent(d))
		}
	}
	for _, e := range in.Ents {
		if e.Callee != nil && !e.Callee.Shared {
			v = min(v, c.firstEvent(e.Callee))
		}
	}
	return v
}

// entInProgress: entry x provably spans time t (an event before t and an event after t).
func (c *gChecker) entInProgress(in *gInst, x *gEnt, t int) bool {
	if x.Kind == gProbe {
		s, ok1 := in.sSeq[x.Lab]
		e, ok2 := in.eSeq[x.Lab]
		return ok1 && ok2 && s < t && e > t
	}
	if x.Callee.Shared {
		return false
	}
	return c.firstEvent(x.Callee) < t && c.lastEvent(x.Callee) > t
}

func (c *gChecker) lastEvent(in *gInst) int {
	v := -1
	for _, s := range in.sSeq {
		v = max(v, s)
	}
	for _, s := range in.eSeq {
		v = max(v, s)
	}
	for _, d := range in.Deps {
		if !d.Shared {
			v = max(v, c.lastEvent(d))
		}
	}
	for _, e := range in.Ents {
		if e.Callee != nil && !e.Callee.Shared {
			v = max(v, c.lastEvent(e.Callee))
		}
	}
	return v
}

func seqStr(v int) string {
	if v >= inf {
		return "never"
	}
	return strconv.Itoa(v)
}

// check validates the recorded probe history. runErr/exit describe how Run ended.
func (m *gModel) check(evs []pEv, conc int, finished bool, errNil bool, errClass string, errCode int, cancelled bool, deadlocked bool) []gVerdict {
	c := &gChecker{m: m, evs: evs, seenSig: map[string]bool{}, firstDeferAt: map[*gInst]int{}}
	for _, r := range m.roots {
		m.res(r)
	}
	// pass 1: index events
	for _, ev := range evs {
		in, ok := m.byP[ev.P]
		if !ok {
			if _, isAlias := m.deferAlias[ev.P]; isAlias {
				c.add("C02", "deferred_call_vars_not_from_caller", "event %c|%s|%s|%s: a deferred task call passed P evaluated outside the caller's scope", ev.Kind, ev.P, ev.Task, ev.Lab)
				continue
			}
			c.add("C02", "unknown_instance", "event %c|%s|%s|%s names an instance the model does not know (callee saw other variables than passed?)", ev.Kind, ev.P, ev.Task, ev.Lab)
			continue
		}
		if in.T.Name != ev.Task {
			c.add("C02", "instance_task_mismatch", "event %c|%s|%s|%s: instance belongs to task %s", ev.Kind, ev.P, ev.Task, ev.Lab, in.T.Name)
			continue
		}
		e := m.ent(in, ev.Lab)
		if e == nil {
			c.add("C02", "unknown_entry", "event %c|%s|%s|%s: no such entry", ev.Kind, ev.P, ev.Task, ev.Lab)
			continue
		}
		tbl := in.sSeq
		if ev.Kind == 'E' {
			tbl = in.eSeq
		}
		if _, dup := tbl[ev.Lab]; dup {
			if in.Shared {
				c.add("C06", "shared_task_ran_twice|"+effRun(m.p, in.T), "entry %s of deduplicated instance %s executed more than once", ev.Lab, in.P)
			} else {
				c.add("C02", "entry_ran_twice", "entry %s of instance %s executed more than once", ev.Lab, in.P)
			}
			continue
		}
		tbl[ev.Lab] = ev.Seq
		if ev.Seq < in.firstOwn && !e.Defer {
			in.firstOwn = ev.Seq
		}
		if e.Defer && ev.Kind == 'S' {
			if _, has := c.firstDeferAt[in]; !has {
				c.firstDeferAt[in] = ev.Seq
			}
		}
	}
	// deferred calls: first event of the callee subtree marks the start of the deferred phase as well
	for _, in := range m.order {
		for _, e := range in.Ents {
			if e.Defer && e.Callee != nil {
				if fe := c.firstEvent(e.Callee); fe < inf {
					if cur, has := c.firstDeferAt[in]; !has || fe < cur {
						if !e.Callee.Shared {
							c.firstDeferAt[in] = fe
						}
					}
				}
			}
		}
	}
	// pass 2: enabledness of every event
	cancelFree := !cancelled
	for _, in := range m.order {
		if !m.res(in) {
			cancelFree = false // some task returns an error: siblings may be cut short (S without E)
		}
	}
	c.cancelPossible = cancelled || m.failureSources() >= 2
	open := 0
	for _, ev := range evs {
		in, ok := m.byP[ev.P]
		if !ok || in.T.Name != ev.Task {
			continue
		}
		e := m.ent(in, ev.Lab)
		if e == nil {
			continue
		}
		if ev.Kind == 'S' {
			c.entryEnabled(in, e, ev.Seq, "S "+ev.P+"#"+ev.Lab)
			// variables the callee sees
			want := in.V
			if got, has := ev.Extra["V"]; has && got != want && effRun(m.p, in.T) != "once" {
				sig := "callee_var_mismatch"
				if in.ParentEnt != nil && in.ParentEnt.Defer {
					sig = "callee_var_mismatch|deferred_call"
				}
				c.add("C02", sig, "instance %s sees V=%q, the call passed V=%q", in.P, got, want)
			}
			if e.Defer {
				if got, has := ev.Extra["X"]; has {
					c.checkExitCode(in, e, got, ev.Seq)
				}
			}
			if got, has := ev.Extra["DYN"]; has && got != "dyn-"+in.T.Name {
				c.add("C02", "callee_var_mismatch|dynamic_var", "instance %s sees DYN=%q, its own dynamic variable evaluates to %q", in.P, got, "dyn-"+in.T.Name)
			}
			if got, has := ev.Extra["M"]; has && got != in.M {
				c.add("C02", "callee_var_mismatch|wildcard_match", "instance %s of a wildcard task sees MATCH=%q, it was called with %q", in.P, got, in.M)
			}
			if got, has := ev.Extra["XC"]; has {
				// a task called from a deferred entry with XC: '{{.EXIT_CODE}}' sees the exit code its caller's
				// deferred entries see; nobody else passes XC
				if in.XCFrom != nil && in.Parent != nil {
					c.checkExitCode(in.Parent, in.XCFrom, got, ev.Seq)
				} else if got != "" {
					c.add("C02", "callee_var_mismatch|xc", "instance %s sees XC=%q although no call passed it", in.P, got)
				}
			}
			if e.Fail == 0 {
				open++
				if conc > 0 && open > conc && cancelFree {
					c.add("C07", "concurrency_bound_exceeded", "%d commands are running at event %d but --concurrency is %d", open, ev.Seq, conc)
				}
				if open > c.openMax {
					c.openMax = open
				}
			}
		} else {
			if s, ok := in.sSeq[ev.Lab]; !ok || s > ev.Seq {
				c.add("C02", "end_without_start", "E event of %s#%s without preceding S", in.P, ev.Lab)
			}
			if e.Fail > 0 {
				c.add("C03", "failing_command_completed", "entry %s of %s is `exit %d` but printed its E probe", ev.Lab, in.P, e.Fail)
			}
			open--
		}
	}
	// one-at-a-time inside an instance: between S and E of a probe no other own event
	for _, in := range m.order {
		for _, e := range in.Ents {
			if e.Kind != gProbe {
				continue
			}
			s, ok1 := in.sSeq[e.Lab]
			en, ok2 := in.eSeq[e.Lab]
			if !ok1 || !ok2 {
				continue
			}
			for _, x := range in.Ents {
				if x == e || x.Kind != gProbe {
					continue
				}
				if xs, ok := in.sSeq[x.Lab]; ok && xs > s && xs < en {
					c.add("C02", "commands_overlap", "entries %s and %s of %s overlap", e.Lab, x.Lab, in.P)
				}
			}
		}
	}
	if !finished && !deadlocked {
		return c.out
	}
	// end-of-run obligations (for a deadlocked run only the deferred entries that provably were registered:
	// a run that hangs before its defers ran has not run them "always")
	anyStaticFail := false
	for _, r := range m.roots {
		if !m.res(r) {
			anyStaticFail = true
		}
	}
	// deferred entries that must have run
	for _, in := range m.order {
		if in.firstOwn == inf && len(c.deferStartedAny(in)) == 0 {
			// the instance may never have got to its commands
			continue
		}
		lastStarted := -1
		for i, e := range in.Ents {
			if !e.Defer && c.entStarted(in, e) < inf {
				lastStarted = i
			}
		}
		for i, e := range in.Ents {
			if !e.Defer || i > lastStarted {
				continue
			}
			// registered for sure: a later normal entry started
			if e.Kind == gProbe {
				if _, ok := in.sSeq[e.Lab]; !ok {
					c.add("C14", "defer_never_ran", "deferred entry %s of %s was registered (entry behind it started) but never ran", e.Lab, in.P)
				} else if _, ok := in.eSeq[e.Lab]; !ok && e.Fail == 0 {
					c.add("C14", "defer_incomplete", "deferred entry %s of %s started but never finished", e.Lab, in.P)
				}
			} else if m.res(e.Callee) && !e.Callee.Skip && !e.Callee.Shared && m.okAt(e.Callee) >= inf && hasEvents(e.Callee) {
				if e.NoDeferVars {
					continue
				}
				c.add("C14", "deferred_call_never_ran", "deferred call %s of %s was registered but its callee %s did not run to completion", e.Lab, in.P, e.Callee.P)
			}
		}
	}
	if cancelled || deadlocked {
		return c.out
	}
	if !anyStaticFail {
		if !errNil {
			c.add("C03", "error_without_failure|"+errClass, "no command fails and no guard trips, yet Run returned an error (%s, exit %d)", errClass, errCode)
		}
		for _, r := range m.roots {
			if m.okAt(r) >= inf {
				what := c.firstMissing(r)
				sig := "work_missing"
				prop := "C07"
				if cu := c.culprit(r); cu.Shared {
					prop, sig = "C06", "shared_execution_missing|"+sharedTag(m, cu)
				}
				c.add(prop, sig, "run succeeded but required work is missing: %s", what)
			}
		}
	} else {
		if errNil {
			// which kind of failure was swallowed?
			kinds := map[string]bool{}
			for _, r := range m.roots {
				if !m.res(r) {
					kinds[c.failOrigin(r)] = true
				}
			}
			c.add("C03", "failure_swallowed|"+strings.Join(sortedKeys(kinds), ","), "a root task statically fails, yet Run returned nil")
		}
	}
	return c.out
}

func hasEvents(in *gInst) bool { return len(in.Ents) > 0 }

func (c *gChecker) deferStartedAny(in *gInst) []int {
	var out []int
	for i, e := range in.Ents {
		if e.Defer && c.entStarted(in, e) < inf {
			out = append(out, i)
		}
	}
	return out
}

// failOrigin describes, for a statically failing instance, through which kind of link the failure arrives.
func (c *gChecker) failOrigin(in *gInst) string {
	m := c.m
	if in.Guard != "" {
		return "guard_" + in.Guard
	}
	for _, d := range in.Deps {
		if !m.res(d) {
			s := "dep"
			if d.Shared {
				s = "shared_dep"
			}
			return s + ">" + c.failOrigin(d)
		}
	}
	sp := m.stopPos(in)
	if sp < 0 {
		return "?"
	}
	e := in.Ents[sp]
	if e.Kind == gProbe {
		return "cmd"
	}
	s := "call"
	if e.Callee.Shared {
		s = "shared_call"
	}
	return s + ">" + c.failOrigin(e.Callee)
}

func (c *gChecker) firstMissing(in *gInst) string {
	m := c.m
	for _, d := range in.Deps {
		if m.okAt(d) >= inf {
			return c.firstMissing(d)
		}
	}
	for _, e := range in.Ents {
		if m.entDone(in, e) >= inf {
			if e.Kind == gProbe {
				pre := ""
				if in.Shared {
					pre = "shared:"
				}
				return fmt.Sprintf("%sentry %s of %s", pre, e.Lab, in.P)
			}
			return c.firstMissing(e.Callee)
		}
	}
	return in.P
}

func (c *gChecker) checkExitCode(in *gInst, e *gEnt, got string, t int) {
	m := c.m
	sp := m.stopPos(in)
	// EXIT_CODE is only defined when the task stopped on a failing command
	if sp < 0 {
		// statically runs through; under cancellation no exit code either
		if got != "" {
			c.add("C14", "exit_code_without_failure", "deferred entry %s of %s sees EXIT_CODE=%q but no command of the task fails", e.Lab, in.P, got)
		}
		return
	}
	st := in.Ents[sp]
	started := c.entStarted(in, st) < t
	if !started {
		// stopped earlier than the static stop point (cancellation): no exit code expected
		return
	}
	want := map[string]bool{}
	if c.cancelPossible {
		want[""] = true // the stopping command may have been cut short by a cancellation instead of exiting
	}
	if st.Kind == gProbe {
		want[strconv.Itoa(st.Fail)] = true
	} else if st.Callee.resKind == "exit" {
		for code := range st.Callee.codes {
			want[strconv.Itoa(code)] = true
		}
		want[""] = true // the callee may have been cancelled by a sibling failure before it failed itself
	} else {
		want[""] = true
		for code := range st.Callee.codes {
			want[strconv.Itoa(code)] = true
		}
	}
	if !want[got] {
		c.add("C14", "exit_code_wrong", "deferred entry %s of %s sees EXIT_CODE=%q, expected one of %v", e.Lab, in.P, got, sortedKeys(want))
	}
}
