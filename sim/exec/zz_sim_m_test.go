package task_test

// Family M (C11): metamorphic. For a generated Taskfile and a task T called with variables v, the
// observable commands of "T alone" must equal those of T when other tasks of the same file run before
// it or concurrently with it on the same Executor, for every explored schedule.

import (
	"context"
	"fmt"
	"os"
	"path/filepath"
	"strings"
	"testing"
	"testing/synctest"
	"time"

	"github.com/go-task/task/v3"
	vs "github.com/go-task/task/v3/internal/verifsim"
	"github.com/go-task/task/v3/taskfile/ast"
)

type mTask struct {
	Name   string
	Dir    string // "" or d1..d3
	Env    string // "" or literal value for EV
	Dyn    string // "" or sh text of task var DYN
	DynEnv string // "" or sh text of env var DE
	Defer  bool   // the task has a deferred command that prints V
	Dotenv bool   // dotenv: ['.env'] -- the file of the task's own dir (every dir has one, with its own value of DOTV)
	Loop   string // "", "matrix-ref", "list"
	Deps   []mCall
	Calls  []mCall
}

type mCall struct {
	Target int
	V      string
	L      string // list variable value for matrix refs (space separated)
}

type mProg struct {
	Tasks      []*mTask
	GlobalDyn  string
	Subject    mCall
	Others     []mCall
	Parallel   bool
	SubjectPos int
	Conc       int
}

var mShPool = []string{"pwd", "echo $EV", "echo const", "echo {{.V}}", "echo $PWD-$EV", `read n < {{.ROOT_DIR}}/varname.txt; eval "echo \$$n"`}

func genM(ch *vs.Choices, tier string) *mProg {
	p := &mProg{}
	n := 3 + ch.Draw(3)
	if ch.Bool(1, 3) {
		p.GlobalDyn = mShPool[ch.Draw(3)]
	}
	for i := 0; i < n; i++ {
		t := &mTask{Name: fmt.Sprintf("m%d", i)}
		if ch.Bool(1, 2) {
			t.Dir = fmt.Sprintf("d%d", 1+ch.Draw(3))
		}
		if ch.Bool(1, 2) {
			t.Env = fmt.Sprintf("e%d", ch.Draw(3))
		}
		if ch.Bool(2, 3) {
			t.Dyn = mShPool[ch.Draw(len(mShPool))]
		}
		if ch.Bool(1, 4) {
			t.DynEnv = mShPool[ch.Draw(3)]
		}
		t.Defer = ch.Bool(1, 3)
		t.Dotenv = ch.Bool(1, 3)
		switch ch.Draw(4) {
		case 0:
			t.Loop = "matrix-ref"
		case 1:
			t.Loop = "list"
		}
		p.Tasks = append(p.Tasks, t)
	}
	mkCall := func(lo int) mCall {
		c := mCall{Target: lo + ch.Draw(n-lo), V: vPool[ch.Draw(len(vPool))]}
		c.L = []string{"p q", "q", "r s t", "p"}[ch.Draw(4)]
		return c
	}
	for i := 0; i < n-1; i++ {
		t := p.Tasks[i]
		for k := 0; k < 2; k++ {
			if ch.Bool(1, 4) {
				t.Deps = append(t.Deps, mCall{Target: i + 1 + ch.Draw(n-i-1), V: vPool[ch.Draw(len(vPool))], L: []string{"p q", "q", "r s t", "p"}[ch.Draw(4)]})
			}
		}
		if ch.Bool(1, 4) {
			t.Calls = append(t.Calls, mCall{Target: i + 1 + ch.Draw(n-i-1), V: vPool[ch.Draw(len(vPool))], L: []string{"p q", "q", "r s t", "p"}[ch.Draw(4)]})
		}
	}
	p.Subject = mkCall(0)
	no := 1 + ch.Draw(3)
	for k := 0; k < no; k++ {
		p.Others = append(p.Others, mkCall(0))
	}
	p.Parallel = ch.Bool(1, 2)
	p.SubjectPos = ch.Draw(no + 1)
	p.Conc = []int{0, 0, 2}[ch.Draw(3)]
	return p
}

func (p *mProg) YAML() string {
	var sb strings.Builder
	sb.WriteString("version: '3'\nsilent: true\n")
	if p.GlobalDyn != "" {
		fmt.Fprintf(&sb, "vars:\n  GD:\n    sh: %s\n", yq(p.GlobalDyn))
	}
	sb.WriteString("tasks:\n")
	for _, t := range p.Tasks {
		fmt.Fprintf(&sb, "  %s:\n", t.Name)
		if t.Dir != "" {
			fmt.Fprintf(&sb, "    dir: %s\n", t.Dir)
		}
		if t.Dotenv {
			sb.WriteString("    dotenv: ['.env']\n")
		}
		if t.Env != "" || t.DynEnv != "" {
			sb.WriteString("    env:\n")
			if t.Env != "" {
				fmt.Fprintf(&sb, "      EV: %s\n", t.Env)
			}
			if t.DynEnv != "" {
				fmt.Fprintf(&sb, "      DE:\n        sh: %s\n", yq(t.DynEnv))
			}
		}
		if t.Dyn != "" {
			fmt.Fprintf(&sb, "    vars:\n      DYN:\n        sh: %s\n", yq(t.Dyn))
		}
		wr := func(kind string, cs []mCall) {
			for k, c := range cs {
				fmt.Fprintf(&sb, "      - task: %s\n        vars: {V: %s, L: %s, ID: '{{.ID}}/%s%d'}\n", p.Tasks[c.Target].Name, yq(c.V), yq(c.L), kind, k)
			}
		}
		if len(t.Deps) > 0 {
			sb.WriteString("    deps:\n")
			wr("d", t.Deps)
		}
		sb.WriteString("    cmds:\n")
		if t.Defer {
			fmt.Fprintf(&sb, "      - defer: %s\n", yq(`echo "O|{{.ID}}|`+t.Name+`|deferred V={{.V}} L={{.L}}"`))
		}
		fmt.Fprintf(&sb, "      - cmd: %s\n", yq(`echo "O|{{.ID}}|`+t.Name+`|V={{.V}}|GD={{.GD}}|DYN={{.DYN}}|EV=$EV|DE=$DE|DOT=$DOTV|PWD=$(pwd)|TASK={{.TASK}}"`))
		switch t.Loop {
		case "matrix-ref":
			fmt.Fprintf(&sb, "      - for:\n          matrix:\n            A:\n              ref: 'concat (list) (splitList \" \" .L)'\n            B: [x, y]\n        cmd: %s\n", yq(`echo "O|{{.ID}}|`+t.Name+`|loop={{.ITEM.A}}-{{.ITEM.B}}"`))
		case "list":
			fmt.Fprintf(&sb, "      - for: {var: L}\n        cmd: %s\n", yq(`echo "O|{{.ID}}|`+t.Name+`|item={{.ITEM}}"`))
		}
		wr("c", t.Calls)
	}
	return sb.String()
}

func mCallOf(p *mProg, c mCall, id string) *task.Call {
	v := ast.NewVars()
	v.Set("V", ast.Var{Value: c.V})
	v.Set("L", ast.Var{Value: c.L})
	v.Set("ID", ast.Var{Value: id})
	return &task.Call{Task: p.Tasks[c.Target].Name, Vars: v}
}

// mExec runs the given calls on a fresh Executor under the current simulation and returns the lines
// whose instance id starts with idPrefix.
func mExec(sim *vs.Sim, gid string, p *mProg, dir string, stdin *os.File, calls []*task.Call, parallel bool) (vs.Outcome, error, error) {
	var runErr, setupErr error
	stdout := &vs.Writer{Sim: sim, Stream: gid, Park: true}
	stderr := &vs.Writer{Sim: sim, Stream: gid + "-err", Park: false}
	root := sim.Go(gid, func() {
		e := task.NewExecutor(task.WithDir(dir), task.WithStdin(stdin), task.WithStdout(stdout), task.WithStderr(stderr),
			task.WithConcurrency(p.Conc), task.WithParallel(parallel), task.WithVersionCheck(true))
		if err := e.Setup(); err != nil {
			setupErr = err
			return
		}
		runErr = e.Run(context.Background(), calls...)
	})
	o := sim.Drive(root)
	return o, runErr, setupErr
}

func runM(t *testing.T, ch *vs.Choices, prop, tier string, render bool) *vs.RunOut {
	out := &vs.RunOut{Reach: map[string]int{}}
	p := genM(ch, tier)
	yaml := p.YAML()
	out.Shape = vs.HashString(yaml + fmt.Sprint(p.Subject, p.Others, p.Parallel, p.SubjectPos))
	dir, err := newRunDir()
	if err != nil {
		out.HarnessError = err.Error()
		return out
	}
	defer os.RemoveAll(dir)
	for _, d := range []string{"d1", "d2", "d3"} {
		_ = os.MkdirAll(filepath.Join(dir, d), 0o755)
		_ = os.WriteFile(filepath.Join(dir, d, ".env"), []byte("DOTV=from-"+d+"\n"), 0o644)
	}
	_ = os.WriteFile(filepath.Join(dir, ".env"), []byte("DOTV=from-root\n"), 0o644)
	// one of the sh: commands reads a variable whose name it takes from this file (an indirect use that the
	// command text does not show)
	_ = os.WriteFile(filepath.Join(dir, "varname.txt"), []byte("L\n"), 0o644)
	if err := os.WriteFile(filepath.Join(dir, "Taskfile.yml"), []byte(yaml), 0o644); err != nil {
		out.HarnessError = err.Error()
		return out
	}
	stdinPath := filepath.Join(dir, ".stdin")
	_ = os.WriteFile(stdinPath, nil, 0o644)
	stdin, _ := os.Open(stdinPath)
	defer stdin.Close()
	var events []vs.Event
	var log []string
	var oA, oB vs.Outcome
	var errA, errB, setA, setB error
	func() {
		defer func() {
			if r := recover(); r != nil {
				if !strings.Contains(fmt.Sprint(r), "deadlock") {
					panic(r)
				}
			}
		}()
		synctest.Test(t, func(t *testing.T) {
			sim := vs.NewSim(ch)
			sim.Strip = dir
			sim.KeepLog = render
			sim.Strategy = vs.NewStrategy(ch, nil)
			out.Strategy = sim.Strategy.Name()
			switch ch.Draw(3) {
			case 0:
				sim.SetMaskByFile(0, 1, 0, 1, nil)
			case 1:
				sim.SetMaskByFile(1, 1, 1, 4, nil)
			case 2:
				sim.SetMaskByFile(1, 2, 1, 1, []string{"variables.go", "compiler.go"})
			}
			vs.S = sim
			defer func() { vs.S = nil }()
			start := time.Now()
			// run A: the subject alone
			oA, errA, setA = mExec(sim, "a", p, dir, stdin, []*task.Call{mCallOf(p, p.Subject, "S")}, false)
			// run B: the subject among the others
			var calls []*task.Call
			k := 0
			for i := 0; i <= len(p.Others); i++ {
				if i == p.SubjectPos {
					calls = append(calls, mCallOf(p, p.Subject, "S"))
				}
				if i < len(p.Others) {
					calls = append(calls, mCallOf(p, p.Others[i], fmt.Sprintf("X%d", k)))
					k++
				}
			}
			if oA == vs.Finished && setA == nil {
				oB, errB, setB = mExec(sim, "b", p, dir, stdin, calls, p.Parallel)
			}
			out.Steps = sim.Steps
			out.SimSeconds = time.Since(start).Seconds()
			out.Hash = sim.Hash()
			events = sim.Events
			log = sim.Log
			sim.Drain()
		})
	}()
	if setA != nil || setB != nil {
		out.HarnessError = fmt.Sprintf("setup: %v %v\n%s", setA, setB, yaml)
		return out
	}
	if oA != vs.Finished || oB != vs.Finished {
		if oA == vs.StepCap || oB == vs.StepCap {
			out.Inconclusive = "stepcap"
			return out
		}
		out.Violate("C07", "deadlock|family_M", "run did not finish: %v %v", oA, oB)
		return out
	}
	if errA != nil || errB != nil {
		if (errA == nil) != (errB == nil) {
			out.Violate("C11", "outcome_differs", "T alone: err=%v; T among others: err=%v", errA, errB)
		} else {
			out.Inconclusive = "both_runs_failed"
		}
		return out
	}
	var la, lb []string
	for _, e := range events {
		if !strings.HasPrefix(e.Line, "O|S|") && !strings.HasPrefix(e.Line, "O|S/") {
			continue
		}
		l := vs.StripDir(e.Line, dir)
		switch e.Stream {
		case "a":
			la = append(la, l)
		case "b":
			lb = append(lb, l)
		}
	}
	// order inside one task is fixed; deps of the subject may interleave among themselves: compare per instance id
	ga, gb := groupByID(la), groupByID(lb)
	// reach: does another executed task share a dynamic-variable command text with the subject but differ in
	// directory or environment; does the subject loop over a matrix reference while another call of it runs
	subj := p.Tasks[p.Subject.Target]
	for _, o := range p.Others {
		ot := p.Tasks[o.Target]
		if ot != subj && ((subj.Dyn != "" && (ot.Dyn == subj.Dyn || ot.DynEnv == subj.Dyn)) || (subj.DynEnv != "" && (ot.Dyn == subj.DynEnv || ot.DynEnv == subj.DynEnv))) && (ot.Dir != subj.Dir || ot.Env != subj.Env) {
			out.Hit("same_sh_text_other_dir_or_env")
		}
		if ot == subj && o.L != p.Subject.L && subj.Loop == "matrix-ref" && p.Parallel {
			out.Hit("matrix_ref_concurrent_calls_differ")
		}
		if ot == subj && o.V != p.Subject.V {
			out.Hit("same_task_other_vars")
		}
	}
	out.NonTrivial = len(la) > 0 && (subj.Dyn != "" || subj.DynEnv != "" || subj.Loop != "" || p.GlobalDyn != "" || len(subj.Deps)+len(subj.Calls) > 0)
	diff := ""
	for _, id := range sortedKeys(ga) {
		if strings.Join(ga[id], "\n") != strings.Join(gb[id], "\n") {
			diff = fmt.Sprintf("instance %s alone:\n  %s\namong others:\n  %s", id, strings.Join(ga[id], "\n  "), strings.Join(gb[id], "\n  "))
			break
		}
	}
	if diff == "" && len(ga) != len(gb) {
		diff = fmt.Sprintf("different instance sets: %v vs %v", sortedKeys(ga), sortedKeys(gb))
	}
	if diff != "" {
		out.Violate("C11", mSig(ga, gb), "%s", diff)
	}
	if render {
		out.Rendered = map[string]any{"files": map[string]string{"Taskfile.yml": yaml},
			"config":   map[string]any{"subject": fmt.Sprint(p.Tasks[p.Subject.Target].Name, " V=", p.Subject.V, " L=", p.Subject.L), "others": fmt.Sprint(p.Others), "parallel": p.Parallel, "subject_pos": p.SubjectPos, "concurrency": p.Conc},
			"strategy": out.Strategy, "trace": traceLinesStrip(events, dir), "schedule": log, "steps": out.Steps}
	}
	return out
}

func traceLinesStrip(evs []vs.Event, dir string) []string {
	var out []string
	for _, e := range evs {
		out = append(out, fmt.Sprintf("%d %s %s %s", e.Seq, e.G, e.Stream, vs.StripDir(e.Line, dir)))
	}
	return out
}

func groupByID(lines []string) map[string][]string {
	m := map[string][]string{}
	for _, l := range lines {
		f := strings.SplitN(l, "|", 4)
		if len(f) < 3 {
			continue
		}
		m[f[1]] = append(m[f[1]], l)
	}
	return m
}

// mSig names which observable differs (field name only, never the values).
func mSig(ga, gb map[string][]string) string {
	for _, id := range sortedKeys(ga) {
		a, b := ga[id], gb[id]
		if len(a) != len(b) {
			for _, l := range append(append([]string{}, a...), b...) {
				if strings.Contains(l, "|loop=") {
					return "differs|matrix_loop_items"
				}
				if strings.Contains(l, "|item=") {
					return "differs|list_loop_items"
				}
			}
			return "differs|line_count"
		}
		for i := range a {
			if a[i] == b[i] {
				continue
			}
			fa, fb := strings.Split(a[i], "|"), strings.Split(b[i], "|")
			for k := range fa {
				if k < len(fb) && fa[k] != fb[k] {
					name := fa[k]
					if j := strings.IndexByte(name, '='); j >= 0 {
						name = name[:j]
					}
					return "differs|" + name
				}
			}
		}
	}
	return "differs|instances"
}
