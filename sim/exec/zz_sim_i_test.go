package task_test

// Family I (C08, C09): include trees. Reader goroutines (one per include) are scheduled by the simulator.
//   C08: the I-model computes the table of callable names from the harness AST; the merged Taskfile and the
//        behaviour of every callable name (commands, deps/calls targets, dir, include vars, attributes) must match.
//   C09: metamorphic: the canonical dump of one tree is identical across reader schedules and repeated loads.

import (
	"context"
	"fmt"
	"os"
	"path/filepath"
	"slices"
	"sort"
	"strings"
	"testing"
	"testing/synctest"
	"time"

	"github.com/go-task/task/v3"
	vs "github.com/go-task/task/v3/internal/verifsim"
	"github.com/go-task/task/v3/taskfile/ast"
)

type iTask struct {
	Name        string
	Aliases     []string
	Internal    bool
	Silent      bool
	Watch       bool
	Method      string
	Platforms   bool
	Run         string
	IgnErr      bool
	Interactive bool
	Label       string
	Prefix      string
	Dir         string
	Deps        []string // local names or ":name" (root)
	Calls       []string
}

type iInc struct {
	NS       string
	Target   int // file index; -1 = missing file
	Dir      string
	Optional bool
	Internal bool
	Flatten  bool
	Aliases  []string
	Excludes []string
	IV       string // value of include var IV_<NS> ("" = none)
	Short    bool   // written in the short form `ns: ./path` (only possible without options)
}

type iFile struct {
	Idx      int
	Rel      string // path of the Taskfile relative to the project root
	Version  string
	GV       string // value of global var GV_f<idx> ("" = none)
	Shared   string // value of the overlapping global var SHARED ("" = none) (C09 only)
	Dyn      bool   // global dynamic var DV_f<idx>: sh: pwd  (evaluated in the directory the include gives it)
	Tasks    []*iTask
	Includes []*iInc
}

// hasDG: the file declares the derived global variable DG_f<idx> (no extra choice is drawn for it, so that
// recorded choice streams keep their meaning).
func (f *iFile) hasDG() bool { return f.GV != "" || f.Idx%2 == 1 }

type iProg struct {
	Files []*iFile
	C09   bool
}

var iTaskNames = []string{"a", "b", "default", "c", "top"}

func genI(ch *vs.Choices, c09 bool, tier string) *iProg {
	p := &iProg{C09: c09}
	nf := 2 + ch.Draw(4)
	if tier == "thorough" {
		nf = 2 + ch.Draw(6)
	}
	for i := 0; i < nf; i++ {
		f := &iFile{Idx: i, Version: "3"}
		if i == 0 {
			f.Rel = "Taskfile.yml"
		} else if ch.Bool(1, 2) {
			f.Rel = fmt.Sprintf("inc/f%d/Taskfile.yml", i)
		} else {
			f.Rel = fmt.Sprintf("inc/f%d.yml", i)
		}
		if ch.Bool(2, 3) {
			f.GV = fmt.Sprintf("gv%d", i)
		}
		if c09 && ch.Bool(1, 2) {
			f.Shared = fmt.Sprintf("shared-from-f%d", i)
		}
		f.Dyn = c09 && ch.Bool(1, 2)
		nt := 1 + ch.Draw(3)
		used := map[string]bool{}
		for k := 0; k < nt; k++ {
			name := iTaskNames[ch.Draw(len(iTaskNames))]
			if i == 0 && k == 0 {
				name = "top"
			}
			if used[name] {
				continue
			}
			used[name] = true
			t := &iTask{Name: name}
			if i == 0 && name == "top" {
				t.Aliases = append(t.Aliases, "tpx") // the root task is also referred to as ':tpx' from included files
			}
			if ch.Bool(1, 4) {
				t.Aliases = append(t.Aliases, fmt.Sprintf("al%d%s", i, name))
			}
			t.Internal = ch.Bool(1, 6)
			t.Silent = ch.Bool(1, 4)
			t.Watch = ch.Bool(1, 4)
			t.IgnErr = ch.Bool(1, 6)
			t.Interactive = ch.Bool(1, 8)
			t.Platforms = ch.Bool(1, 6)
			if ch.Bool(1, 4) {
				t.Method = []string{"checksum", "timestamp", "none"}[ch.Draw(3)]
			}
			if ch.Bool(1, 6) {
				t.Run = []string{"once", "when_changed", "always"}[ch.Draw(3)]
			}
			if ch.Bool(1, 6) {
				t.Label = fmt.Sprintf("label-%d-%s", i, name)
			}
			if ch.Bool(1, 6) {
				t.Prefix = fmt.Sprintf("prefix-%d-%s", i, name)
			}
			if ch.Bool(1, 5) {
				t.Dir = "sub"
			}
			f.Tasks = append(f.Tasks, t)
		}
		p.Files = append(p.Files, f)
	}
	// local references
	for _, f := range p.Files {
		for ti, t := range f.Tasks {
			for k, o := range f.Tasks {
				if k <= ti {
					continue
				}
				if ch.Bool(1, 4) {
					t.Deps = append(t.Deps, o.Name)
				} else if ch.Bool(1, 4) {
					t.Calls = append(t.Calls, o.Name)
				}
			}
			if f.Idx != 0 && ch.Bool(1, 4) {
				t.Calls = append(t.Calls, []string{":top", ":tpx"}[ch.Draw(2)])
			}
		}
	}
	// includes
	ns := 0
	for i, f := range p.Files {
		ninc := ch.Draw(3)
		if i == 0 {
			ninc = 1 + ch.Draw(3)
		}
		for k := 0; k < ninc; k++ {
			inc := &iInc{NS: fmt.Sprintf("n%d", ns)}
			ns++
			lo := i + 1
			cyc := !c09 && ch.Bool(1, 25)
			if cyc {
				lo = 0
			}
			if lo >= nf {
				continue
			}
			inc.Target = lo + ch.Draw(nf-lo)
			if !c09 && ch.Bool(1, 15) {
				inc.Target = -1
				inc.Optional = ch.Bool(1, 2)
			} else if ch.Bool(1, 5) {
				inc.Optional = true // optional forgives only the absence of this very file, nothing inside it
			}
			if ch.Bool(1, 3) {
				inc.Dir = fmt.Sprintf("work/%s", inc.NS)
			}
			inc.Internal = ch.Bool(1, 8)
			inc.Flatten = ch.Bool(1, 6)
			if ch.Bool(1, 4) {
				inc.Aliases = []string{"x" + inc.NS}
			}
			if ch.Bool(1, 2) {
				inc.IV = "iv-" + inc.NS
			}
			if inc.Target > 0 && ch.Bool(1, 6) {
				tf := p.Files[inc.Target]
				cand := tf.Tasks[ch.Draw(len(tf.Tasks))]
				referenced := false
				for _, o := range tf.Tasks {
					if slices.Contains(o.Deps, cand.Name) || slices.Contains(o.Calls, cand.Name) {
						referenced = true
					}
				}
				if !referenced {
					inc.Excludes = []string{cand.Name}
				}
			}
			if inc.Target >= 0 && inc.Dir == "" && !inc.Optional && !inc.Internal && !inc.Flatten && len(inc.Aliases) == 0 && len(inc.Excludes) == 0 && inc.IV == "" {
				inc.Short = ch.Bool(2, 3)
			}
			f.Includes = append(f.Includes, inc)
		}
	}
	if !c09 && ch.Bool(1, 20) {
		p.Files[1+ch.Draw(nf-1)].Version = "3.1"
	}
	if !c09 && ch.Bool(1, 12) {
		// a root task whose literal name equals <namespace>:<task> of one of the root's own includes
		for _, inc := range p.Files[0].Includes {
			if inc.Target > 0 && !inc.Flatten {
				tf := p.Files[inc.Target]
				tn := tf.Tasks[ch.Draw(len(tf.Tasks))].Name
				p.Files[0].Tasks = append(p.Files[0].Tasks, &iTask{Name: inc.NS + ":" + tn})
				break
			}
		}
	}
	return p
}

func (p *iProg) allNS() []string {
	var out []string
	for _, f := range p.Files {
		for _, inc := range f.Includes {
			out = append(out, inc.NS)
		}
	}
	return out
}

func (p *iProg) fileYAML(f *iFile) string {
	var sb strings.Builder
	fmt.Fprintf(&sb, "version: '%s'\n", f.Version)
	var ivs []string
	for _, n := range p.allNS() {
		ivs = append(ivs, fmt.Sprintf("%s={{.IV_%s}}", n, n))
	}
	if f.GV != "" || f.Shared != "" || f.Dyn || f.hasDG() {
		sb.WriteString("vars:\n")
		if f.Dyn {
			fmt.Fprintf(&sb, "  DV_f%d:\n    sh: pwd\n", f.Idx)
		}
		if f.GV != "" {
			fmt.Fprintf(&sb, "  GV_f%d: %s\n", f.Idx, f.GV)
		}
		if f.Shared != "" {
			fmt.Fprintf(&sb, "  SHARED: %s\n", f.Shared)
		}
		if f.hasDG() {
			// a global variable of this file derived from the variables its includer passes (the documented
			// `{{.X | default ...}}` idiom): must see the include vars of the chain it was reached through
			fmt.Fprintf(&sb, "  DG_f%d: %s\n", f.Idx, yq("d["+strings.Join(ivs, ",")+"]"))
		}
	}
	if len(f.Includes) > 0 {
		sb.WriteString("includes:\n")
		for _, inc := range f.Includes {
			fmt.Fprintf(&sb, "  %s:\n", inc.NS)
			if inc.Target < 0 {
				fmt.Fprintf(&sb, "    taskfile: ./missing-%s.yml\n", inc.NS)
			} else {
				// path relative to the including file
				rel, _ := filepath.Rel(filepath.Dir(f.Rel), p.Files[inc.Target].Rel)
				if strings.HasSuffix(rel, "/Taskfile.yml") && len(inc.NS)%2 == 0 {
					rel = strings.TrimSuffix(rel, "/Taskfile.yml") // include by directory
				}
				if inc.Short {
					// rewrite the header line just written: short form
					cur := sb.String()
					cur = strings.TrimSuffix(cur, fmt.Sprintf("  %s:\n", inc.NS))
					sb.Reset()
					sb.WriteString(cur)
					fmt.Fprintf(&sb, "  %s: ./%s\n", inc.NS, rel)
					continue
				}
				fmt.Fprintf(&sb, "    taskfile: ./%s\n", rel)
			}
			if inc.Dir != "" {
				fmt.Fprintf(&sb, "    dir: ./%s\n", inc.Dir)
			}
			if inc.Optional {
				sb.WriteString("    optional: true\n")
			}
			if inc.Internal {
				sb.WriteString("    internal: true\n")
			}
			if inc.Flatten {
				sb.WriteString("    flatten: true\n")
			}
			if len(inc.Aliases) > 0 {
				fmt.Fprintf(&sb, "    aliases: [%s]\n", strings.Join(inc.Aliases, ", "))
			}
			if len(inc.Excludes) > 0 {
				fmt.Fprintf(&sb, "    excludes: [%s]\n", strings.Join(inc.Excludes, ", "))
			}
			if inc.IV != "" {
				fmt.Fprintf(&sb, "    vars:\n      IV_%s: %s\n", inc.NS, inc.IV)
			}
		}
	}
	sb.WriteString("tasks:\n")
	for _, t := range f.Tasks {
		fmt.Fprintf(&sb, "  %s:\n    desc: task %s of f%d\n", t.Name, t.Name, f.Idx)
		if len(t.Aliases) > 0 {
			fmt.Fprintf(&sb, "    aliases: [%s]\n", strings.Join(t.Aliases, ", "))
		}
		if t.Internal {
			sb.WriteString("    internal: true\n")
		}
		if t.Silent {
			sb.WriteString("    silent: true\n")
		}
		if t.Watch {
			sb.WriteString("    watch: true\n")
		}
		if t.IgnErr {
			sb.WriteString("    ignore_error: true\n")
		}
		if t.Interactive {
			sb.WriteString("    interactive: true\n")
		}
		if t.Platforms {
			sb.WriteString("    platforms: [linux, darwin]\n")
		}
		if t.Method != "" {
			fmt.Fprintf(&sb, "    method: %s\n", t.Method)
		}
		if t.Run != "" {
			fmt.Fprintf(&sb, "    run: %s\n", t.Run)
		}
		if t.Label != "" {
			fmt.Fprintf(&sb, "    label: %s\n", t.Label)
		}
		if t.Prefix != "" {
			fmt.Fprintf(&sb, "    prefix: %s\n", t.Prefix)
		}
		if t.Dir != "" {
			fmt.Fprintf(&sb, "    dir: %s\n", t.Dir)
		}
		if len(t.Deps) > 0 {
			sb.WriteString("    deps:\n")
			for _, d := range t.Deps {
				fmt.Fprintf(&sb, "      - task: %s\n", yq(d))
			}
		}
		sb.WriteString("    cmds:\n")
		line := fmt.Sprintf(`echo "I|f%d|%s|PWD=$(pwd)|GV={{.GV_f%d}}|SH={{.SHARED}}|%s|DG={{.DG_f%d}}"`, f.Idx, t.Name, f.Idx, strings.Join(ivs, ","), f.Idx)
		fmt.Fprintf(&sb, "      - cmd: %s\n", yq(line))
		for _, c := range t.Calls {
			fmt.Fprintf(&sb, "      - task: %s\n", yq(c))
		}
	}
	return sb.String()
}

// ---------------------------------------------------------------------------------------------------
// I-model

type iEntry struct {
	File     *iFile
	Task     *iTask
	Path     []*iInc  // outermost first
	IncFrom  []*iFile // including file of each path element
	Name     string
	Aliases  []string
	Internal bool
}

type iModel struct {
	p     *iProg
	err   string // expected error class ("" = load succeeds)
	table map[string]*iEntry
}

func (m *iModel) names(f *iFile, stack []int) (map[string]*iEntry, []string) {
	if slices.Contains(stack, f.Idx) {
		m.err = "cycle"
		return nil, nil
	}
	stack = append(stack, f.Idx)
	tbl := map[string]*iEntry{}
	var order []string
	for _, t := range f.Tasks {
		tbl[t.Name] = &iEntry{File: f, Task: t, Name: t.Name, Aliases: append([]string(nil), t.Aliases...), Internal: t.Internal}
		order = append(order, t.Name)
	}
	for _, inc := range f.Includes {
		if inc.Target < 0 {
			if !inc.Optional {
				m.err = "missing"
			}
			continue
		}
		tf := m.p.Files[inc.Target]
		if tf.Version != f.Version {
			m.err = "version"
		}
		sub, subOrder := m.names(tf, stack)
		if m.err == "cycle" {
			return nil, nil
		}
		_, subHasDefault := sub["default"]
		_, parentHasNS := tbl[inc.NS]
		for _, n := range subOrder {
			e := sub[n]
			if slices.Contains(inc.Excludes, n) {
				continue
			}
			ne := &iEntry{File: e.File, Task: e.Task, Internal: e.Internal || inc.Internal}
			ne.Path = append([]*iInc{inc}, e.Path...)
			ne.IncFrom = append([]*iFile{f}, e.IncFrom...)
			if inc.Flatten {
				ne.Name = n
				ne.Aliases = append([]string(nil), e.Aliases...)
			} else {
				ne.Name = inc.NS + ":" + n
				for _, a := range e.Aliases {
					ne.Aliases = append(ne.Aliases, inc.NS+":"+a)
				}
				for _, na := range inc.Aliases {
					ne.Aliases = append(ne.Aliases, na+":"+n)
					for _, a := range e.Aliases {
						ne.Aliases = append(ne.Aliases, na+":"+a)
					}
				}
				if n == "default" && subHasDefault && !parentHasNS {
					ne.Aliases = append(ne.Aliases, inc.NS)
					ne.Aliases = append(ne.Aliases, inc.Aliases...)
				}
			}
			if _, dup := tbl[ne.Name]; dup {
				m.err = "collision"
				continue
			}
			tbl[ne.Name] = ne
			order = append(order, ne.Name)
		}
	}
	return tbl, order
}

// resolve: the callable name a reference made by entry e to `ref` must bind to.
func (m *iModel) resolve(e *iEntry, ref string) string {
	if ref == ":tpx" {
		return "top" // the root task, by its alias
	}
	if strings.HasPrefix(ref, ":") {
		return strings.TrimPrefix(ref, ":") // the root Taskfile's task
	}
	prefix := ""
	for _, inc := range e.Path {
		if !inc.Flatten {
			prefix += inc.NS + ":"
		}
	}
	return prefix + ref
}

// expectedLines: probe lines produced by calling entry e (own line plus those of deps / calls, transitively).
func (m *iModel) expectedLines(e *iEntry, dir string, depth int, out map[string]int) {
	m.expectedLinesOpt(e, dir, depth, out, false)
}

func (m *iModel) expectedLinesOpt(e *iEntry, dir string, depth int, out map[string]int, optional bool) {
	if depth > 8 {
		return
	}
	if e.Task.Run == "once" || e.Task.Run == "when_changed" {
		// all calls share one Executor: a deduplicated task (and everything below it) may already have
		// run for an earlier call
		optional = true
	}
	if optional {
		out["OPTIONAL "+m.line(e, dir)]++
	} else {
		out[m.line(e, dir)]++
	}
	for _, d := range append(append([]string{}, e.Task.Deps...), e.Task.Calls...) {
		if t, ok := m.table[m.resolve(e, d)]; ok {
			m.expectedLinesOpt(t, dir, depth+1, out, optional)
		} else {
			out["UNRESOLVED "+d]++
		}
	}
}

// line renders the probe line the model expects; fields the model does not want to assert are "*".
func (m *iModel) line(e *iEntry, dir string) string {
	pwd := "*"
	if len(e.Path) == 0 {
		pwd = "$D"
		if e.Task.Dir != "" {
			pwd = "$D/" + e.Task.Dir
		}
	} else {
		inner := e.Path[len(e.Path)-1]
		from := e.IncFrom[len(e.IncFrom)-1]
		base := filepath.Dir(from.Rel)
		if inner.Dir != "" {
			// "runs in the directory given by the include" (relative to the including file)
			pwd = filepath.Join("$D", base, inner.Dir, e.Task.Dir)
		} else if len(e.Path) == 1 {
			pwd = filepath.Join("$D", e.Task.Dir)
		}
		// an outer include that gives its own dir moves relative paths; only assert when no outer include has a dir
		for _, inc := range e.Path[:len(e.Path)-1] {
			if inc.Dir != "" && inner.Dir == "" {
				pwd = "*"
			}
		}
	}
	gv := e.File.GV
	var ivs []string
	for _, n := range m.p.allNS() {
		v := ""
		for _, inc := range e.Path {
			if inc.NS == n {
				v = inc.IV
			}
		}
		ivs = append(ivs, n+"="+v)
	}
	dg := ""
	if e.File.hasDG() {
		dg = "d[" + strings.Join(ivs, ",") + "]"
	}
	return fmt.Sprintf("I|f%d|%s|PWD=%s|GV=%s|SH=*|%s|DG=%s", e.File.Idx, e.Task.Name, pwd, gv, strings.Join(ivs, ","), dg)
}

func wildEq(want, got string) bool {
	wf, gf := strings.Split(want, "|"), strings.Split(got, "|")
	if len(wf) != len(gf) {
		return false
	}
	for i := range wf {
		if strings.HasSuffix(wf[i], "=*") {
			if !strings.HasPrefix(gf[i], strings.TrimSuffix(wf[i], "*")) {
				return false
			}
			continue
		}
		if wf[i] != gf[i] {
			return false
		}
	}
	return true
}

// ---------------------------------------------------------------------------------------------------

func iWrite(p *iProg, dir string) error {
	for _, f := range p.Files {
		path := filepath.Join(dir, f.Rel)
		if err := os.MkdirAll(filepath.Dir(path), 0o755); err != nil {
			return err
		}
		if err := os.WriteFile(path, []byte(p.fileYAML(f)), 0o644); err != nil {
			return err
		}
	}
	return nil
}

func iDump(e *task.Executor, dir string) string {
	var sb strings.Builder
	for name, t := range e.Taskfile.Tasks.All(nil) {
		al := append([]string(nil), t.Aliases...)
		fmt.Fprintf(&sb, "task %s aliases=%v internal=%v dir=%s\n", name, al, t.Internal, vs.StripDir(t.Dir, dir))
		ct, err := e.FastCompiledTask(&task.Call{Task: name})
		if err != nil {
			fmt.Fprintf(&sb, "  compile error: %v\n", err)
			continue
		}
		for _, c := range ct.Cmds {
			fmt.Fprintf(&sb, "  cmd %q task %q\n", vs.StripDir(c.Cmd, dir), c.Task)
		}
		for _, d := range ct.Deps {
			fmt.Fprintf(&sb, "  dep %q\n", d.Task)
		}
		fmt.Fprintf(&sb, "  dir %s\n", vs.StripDir(ct.Dir, dir))
	}
	for k, v := range e.Taskfile.Vars.All() {
		if strings.HasPrefix(k, "GV_") || strings.HasPrefix(k, "DV_") || k == "SHARED" {
			fmt.Fprintf(&sb, "var %s=%v dir=%s\n", k, v.Value, vs.StripDir(v.Dir, dir))
		}
	}
	// the variables every task was given when its Taskfile was merged (copies made at merge time)
	for name, t := range e.Taskfile.Tasks.All(nil) {
		for k, v := range t.IncludedTaskfileVars.All() {
			if strings.HasPrefix(k, "DV_") || k == "SHARED" {
				fmt.Fprintf(&sb, "taskvar %s %s=%v dir=%s\n", name, k, v.Value, vs.StripDir(v.Dir, dir))
			}
		}
	}
	return sb.String()
}

func runI(t *testing.T, ch *vs.Choices, prop, tier string, render bool) *vs.RunOut {
	out := &vs.RunOut{Reach: map[string]int{}}
	c09 := prop == "C09"
	p := genI(ch, c09, tier)
	var all strings.Builder
	files := map[string]string{}
	for _, f := range p.Files {
		y := p.fileYAML(f)
		files[f.Rel] = y
		all.WriteString(f.Rel + "\n" + y)
	}
	out.Shape = vs.HashString(all.String())
	dir, err := newRunDir()
	if err != nil {
		out.HarnessError = err.Error()
		return out
	}
	defer os.RemoveAll(dir)
	if err := iWrite(p, dir); err != nil {
		out.HarnessError = err.Error()
		return out
	}
	stdinPath := filepath.Join(dir, ".stdin")
	_ = os.WriteFile(stdinPath, nil, 0o644)
	stdin, _ := os.Open(stdinPath)
	defer stdin.Close()

	m := &iModel{p: p}
	m.table, _ = m.names(p.Files[0], nil)
	nLoads := 1
	if c09 {
		nLoads = 10
		if tier == "thorough" {
			nLoads = 24
		}
	}
	type loadRes struct {
		err         error
		dump        string
		lines       map[string][]string // callable name -> probe lines
		runErr      map[string]error
		attrs       map[string]*ast.Task
		aliasTarget map[string]string
		outcome     vs.Outcome
	}
	var loads []*loadRes
	var log []string
	var events []vs.Event
	func() {
		defer func() {
			if r := recover(); r != nil {
				if !strings.Contains(fmt.Sprint(r), "deadlock") {
					panic(r)
				}
			}
		}()
		synctest.Test(t, func(t *testing.T) {
			sim := vs.NewSim(ch)
			sim.Strip = dir
			sim.KeepLog = render
			sim.Strategy = vs.NewStrategy(ch, []string{"random", "sticky", "pct", "starve"})
			out.Strategy = sim.Strategy.Name()
			switch ch.Draw(3) {
			case 0:
				sim.SetMaskByFile(0, 1, 0, 1, nil)
			case 1:
				sim.SetMaskByFile(0, 1, 0, 1, []string{"taskfile/reader.go", "taskfile/ast/graph.go"})
			case 2:
				sim.SetMaskByFile(1, 3, 1, 4, []string{"taskfile/reader.go"})
			}
			vs.S = sim
			defer func() { vs.S = nil }()
			start := time.Now()
			for li := 0; li < nLoads; li++ {
				lr := &loadRes{lines: map[string][]string{}, runErr: map[string]error{}, attrs: map[string]*ast.Task{}, aliasTarget: map[string]string{}}
				loads = append(loads, lr)
				gid := fmt.Sprintf("l%d", li)
				stdout := &vs.Writer{Sim: sim, Stream: gid, Park: false}
				stderr := &vs.Writer{Sim: sim, Stream: gid + "-err", Park: false}
				root := sim.Go(gid, func() {
					e := task.NewExecutor(task.WithDir(dir), task.WithStdin(stdin), task.WithStdout(stdout), task.WithStderr(stderr), task.WithVersionCheck(true))
					if err := e.Setup(); err != nil {
						lr.err = err
						return
					}
					lr.dump = iDump(e, dir)
					if c09 {
						return
					}
					for name, tk := range e.Taskfile.Tasks.All(nil) {
						lr.attrs[name] = tk
					}
					for name, en := range m.table {
						for _, a := range en.Aliases {
							if tk, err := e.GetTask(&task.Call{Task: a}); err == nil {
								lr.aliasTarget[a] = tk.Task
							} else {
								lr.aliasTarget[a] = "ERR:" + fmt.Sprintf("%T", err)
							}
						}
						_ = name
					}
					names := sortedKeys(m.table)
					for _, name := range names {
						if m.table[name].Task.Watch {
							continue // calling it would start watch mode
						}
						if tk, ok := lr.attrs[name]; !ok || tk.Watch {
							continue // not there, or (wrongly) a watch task: reported by the table / attribute checks
						}
						before := len(sim.Events)
						err := e.Run(context.Background(), &task.Call{Task: name})
						lr.runErr[name] = err
						for _, ev := range sim.Events[before:] {
							if ev.Stream == gid && strings.HasPrefix(ev.Line, "I|") {
								lr.lines[name] = append(lr.lines[name], vs.StripDir(ev.Line, dir))
							}
						}
					}
				})
				lr.outcome = sim.Drive(root)
				if lr.outcome != vs.Finished {
					break
				}
			}
			out.Steps = sim.Steps
			out.SimSeconds = time.Since(start).Seconds()
			out.Hash = sim.Hash()
			log = sim.Log
			events = sim.Events
			sim.Drain()
		})
	}()
	_ = events
	for _, lr := range loads {
		if lr.outcome != vs.Finished {
			if lr.outcome == vs.StepCap {
				out.Inconclusive = "stepcap"
			} else {
				out.Violate("C07", "deadlock|family_I", "loading did not finish")
			}
			return out
		}
	}
	nInc := 0
	for _, f := range p.Files {
		nInc += len(f.Includes)
	}
	out.NonTrivial = nInc >= 2
	rendered := func(extra map[string]any) {
		if !render {
			return
		}
		r := map[string]any{"files": files, "strategy": out.Strategy, "schedule": log, "steps": out.Steps, "model_error": m.err}
		for k, v := range extra {
			r[k] = v
		}
		out.Rendered = r
	}
	if c09 {
		first := loads[0]
		for i, lr := range loads[1:] {
			if (lr.err == nil) != (first.err == nil) {
				out.Violate("C09", "load_outcome_differs", "load 0: err=%v; load %d: err=%v", first.err, i+1, lr.err)
				break
			}
			if lr.err != nil {
				continue
			}
			if lr.dump != first.dump {
				out.Violate("C09", c09Sig(first.dump, lr.dump), "two loads of the same tree differ:\n%s", firstDiff(first.dump, lr.dump))
				break
			}
		}
		rendered(map[string]any{"dump0": first.dump, "err0": vs.StripDir(fmt.Sprint(first.err), dir)})
		return out
	}
	lr := loads[0]
	rendered(map[string]any{"dump": lr.dump, "err": vs.StripDir(fmt.Sprint(lr.err), dir)})
	if m.err != "" {
		out.Hit("expected_error:" + m.err)
		if lr.err == nil {
			out.Violate("C08", "error_not_reported|"+m.err, "the include tree has a %s problem but loading succeeded", m.err)
		}
		return out
	}
	if lr.err != nil {
		out.Violate("C08", "unexpected_load_error|"+fmt.Sprintf("%T", lr.err), "a valid include tree failed to load: %v", lr.err)
		return out
	}
	// 1. the set of callable names
	for _, name := range sortedKeys(m.table) {
		if _, ok := lr.attrs[name]; !ok {
			out.Violate("C08", "task_missing|"+iKind(m.table[name]), "task %q (file f%d task %s) is not in the merged Taskfile", name, m.table[name].File.Idx, m.table[name].Task.Name)
		}
	}
	for _, name := range sortedKeys(lr.attrs) {
		if _, ok := m.table[name]; !ok {
			out.Violate("C08", "task_unexpected", "merged Taskfile contains %q which no include path produces", name)
		}
	}
	if len(out.Violations) > 0 {
		return out
	}
	// 2. attributes, aliases
	for _, name := range sortedKeys(m.table) {
		en := m.table[name]
		got := lr.attrs[name]
		tk := en.Task
		chk := func(attr string, want, have any) {
			if fmt.Sprint(want) != fmt.Sprint(have) {
				out.Violate("C08", "attribute_lost|"+attr+"|"+iDepthKind(en), "task %q: %s is %v, its definition says %v", name, attr, have, want)
			}
		}
		chk("internal", en.Internal, got.Internal)
		chk("silent", tk.Silent, got.Silent)
		chk("watch", tk.Watch, got.Watch)
		chk("ignore_error", tk.IgnErr, got.IgnoreError)
		chk("interactive", tk.Interactive, got.Interactive)
		chk("method", tk.Method, got.Method)
		chk("run", tk.Run, got.Run)
		chk("label", tk.Label, got.Label)
		chk("prefix", tk.Prefix, got.Prefix)
		chk("platforms", tk.Platforms, len(got.Platforms) == 2)
		wa := append([]string(nil), en.Aliases...)
		ga := append([]string(nil), got.Aliases...)
		sort.Strings(wa)
		sort.Strings(ga)
		wa, ga = slices.Compact(wa), slices.Compact(ga)
		chk("aliases", wa, ga)
		for _, a := range en.Aliases {
			// an alias that is also a real task name resolves to that task (exact name first): skip those
			if _, isName := m.table[a]; isName {
				continue
			}
			// ambiguous aliases (same alias on two tasks) are C15's subject
			n := 0
			for _, o := range m.table {
				if slices.Contains(o.Aliases, a) {
					n++
				}
			}
			if n != 1 {
				continue
			}
			if lr.aliasTarget[a] != name {
				out.Violate("C08", "alias_not_callable|"+iDepthKind(en), "alias %q should run %q, resolves to %q", a, name, lr.aliasTarget[a])
			}
		}
	}
	// 3. behaviour of every callable name
	for _, name := range sortedKeys(m.table) {
		en := m.table[name]
		if en.Task.Watch {
			continue
		}
		err := lr.runErr[name]
		if en.Internal {
			if err == nil || !strings.Contains(fmt.Sprintf("%T", err), "TaskInternalError") {
				out.Violate("C08", "internal_task_callable", "internal task %q: Run returned %v", name, err)
			}
			continue
		}
		want := map[string]int{}
		m.expectedLines(en, dir, 0, want)
		unresolved := false
		for k := range want {
			if strings.HasPrefix(k, "UNRESOLVED") {
				unresolved = true
			}
		}
		if unresolved {
			continue // reference to an excluded / non-existent task: generator avoids it, never assert
		}
		if err != nil {
			out.Violate("C08", "call_failed|"+iDepthKind(en), "calling %q failed: %v", name, err)
			continue
		}
		got := lr.lines[name]
		// multiset comparison with wildcards; run-once style dedup inside one call can merge duplicates: compare as sets
		for w := range want {
			if strings.HasPrefix(w, "OPTIONAL ") {
				continue
			}
			found := false
			for _, g := range got {
				if wildEq(w, g) {
					found = true
				}
			}
			if !found {
				out.Violate("C08", iBehaviourSig(w, got, en), "calling %q: expected probe %q, got %q", name, w, got)
				break
			}
		}
		for _, g := range got {
			found := false
			for w := range want {
				if wildEq(strings.TrimPrefix(w, "OPTIONAL "), g) {
					found = true
				}
			}
			if !found {
				out.Violate("C08", "foreign_command_ran|"+iDepthKind(en), "calling %q ran %q which is not among the commands of its definition, deps and calls %v", name, g, sortedKeys(want))
				break
			}
		}
	}
	return out
}

func iKind(e *iEntry) string {
	if len(e.Path) == 0 {
		return "root"
	}
	k := fmt.Sprintf("depth%d", min(len(e.Path), 3))
	for _, inc := range e.Path {
		if inc.Flatten {
			k += ",flatten"
			break
		}
	}
	return k
}

func iDepthKind(e *iEntry) string { return iKind(e) }

// iBehaviourSig names which expected field is missing from what ran.
func iBehaviourSig(want string, got []string, e *iEntry) string {
	wf := strings.Split(want, "|")
	for _, g := range got {
		gf := strings.Split(g, "|")
		if len(gf) != len(wf) || gf[1] != wf[1] || gf[2] != wf[2] {
			continue
		}
		for i := 3; i < len(wf); i++ {
			if strings.HasSuffix(wf[i], "=*") || wf[i] == gf[i] {
				continue
			}
			name := wf[i]
			if j := strings.IndexByte(name, '='); j >= 0 {
				name = name[:j]
			}
			if strings.HasPrefix(name, "n") {
				name = "include_var"
			}
			return "wrong_" + name + "|" + iKind(e)
		}
	}
	// the expected file/task never ran at all: a reference bound to another file's task?
	ref := "own_command"
	if wf[1] != fmt.Sprintf("f%d", e.File.Idx) || wf[2] != e.Task.Name {
		ref = "reference"
		if wf[1] == "f0" && len(e.Path) > 0 {
			ref = "root_reference"
		}
	}
	return "wrong_target|" + ref + "|" + iKind(e)
}

func firstDiff(a, b string) string {
	la, lb := strings.Split(a, "\n"), strings.Split(b, "\n")
	for i := 0; i < len(la) && i < len(lb); i++ {
		if la[i] != lb[i] {
			return fmt.Sprintf("line %d:\n  %s\n  %s", i, la[i], lb[i])
		}
	}
	return fmt.Sprintf("lengths %d vs %d", len(la), len(lb))
}

func c09Sig(a, b string) string {
	la, lb := strings.Split(a, "\n"), strings.Split(b, "\n")
	sa, sb := append([]string(nil), la...), append([]string(nil), lb...)
	sort.Strings(sa)
	sort.Strings(sb)
	if strings.Join(sa, "\n") == strings.Join(sb, "\n") {
		return "dump_differs|task_order"
	}
	for i := 0; i < len(la) && i < len(lb); i++ {
		if la[i] != lb[i] {
			if strings.HasPrefix(la[i], "var ") || strings.HasPrefix(lb[i], "var ") {
				return "dump_differs|global_var_value"
			}
			if strings.Contains(la[i], "cmd ") {
				return "dump_differs|command_line"
			}
			break
		}
	}
	return "dump_differs|other"
}
