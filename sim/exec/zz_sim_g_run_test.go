package task_test

// Family G runner: executes a generated program on the real Executor inside a synctest bubble under the
// seeded scheduler and evaluates the G-model oracles.

import (
	"context"
	stderrors "errors"
	"fmt"
	"os"
	"path/filepath"
	"sort"
	"strconv"
	"strings"
	"testing"
	"testing/synctest"
	"time"

	"github.com/go-task/task/v3"
	"github.com/go-task/task/v3/errors"
	vs "github.com/go-task/task/v3/internal/verifsim"
	"github.com/go-task/task/v3/taskfile/ast"
)

func biasFor(prop, tier string) gBias {
	b := gBias{MaxTasks: 6, PFail: 12, PIgnore: 10, PDedup: 30, PDefer: 8, PCall: 30, PLoop: 10, PGuard: 0, PDeps: 35,
		Parallel: true, Concs: []int{0, 0, 1, 2, 3}, MaxInst: 40}
	if tier == "thorough" {
		b.MaxTasks = 9
		b.MaxInst = 70
	}
	switch prop {
	case "C01":
		b.Wildcards = true
		b.FailSibling = true
		b.LoopKinds = true
		b.PLoop = 20
		b.FanIn = true
		b.PDedup = 45
		b.PDeps = 50
		b.PFail = 15
	case "C02":
		b.PCall = 45
		b.PLoop = 25
		b.Matrix = true
		b.LoopKinds = true
		b.PDeps = 25
		b.PFail = 5
		b.DeferCallTpl = true
		b.PDefer = 12
		b.Wildcards = true
		b.DynVars = true
		b.FailSibling = true
		b.PDedup = 40
		b.FailMix = true // "returns only after ..." matters most when the call fails and the caller carries on
	case "C03":
		b.PFail = 30
		b.PIgnore = 25
	case "C06":
		b.DynCount = true
		b.IncRun = true
		b.FailSibling = true
		b.FanIn = true
		b.PDedup = 60
		b.PFail = 8
		b.PIgnore = 30 // absorbing callers keep other branches alive after a failure next to a shared task
		b.VEnvSub = true
		b.PLoop = 20
	case "C07":
		b.DynVars = true
		b.PGuard = 6
		b.PDeps = 55
		b.PFail = 3
		b.Concs = []int{1, 1, 2, 3, 0}
		b.PDedup = 35
	case "C13":
		b.PGuard = 45
		b.PFail = 5
		b.ForceFlags = true
		b.DynVars = true
	case "C14":
		b.Wildcards = true
		b.PDefer = 35
		b.PFail = 25
		b.Cancel = true
	case "C11", "C17", "C18":
		b.PFail = 5
	}
	return b
}

// mapExit is the harness copy of cmd/task main()'s error -> exit status mapping (cross-checked against
// the real binary by `verif selftest`).
func mapExit(err error, exitCodeFlag bool) (int, string) {
	if err == nil {
		return 0, "ok"
	}
	if e, ok := err.(*errors.TaskRunError); ok && exitCodeFlag {
		return e.TaskExitCode(), "TaskRunError"
	}
	if e, ok := err.(errors.TaskError); ok {
		return e.Code(), fmt.Sprintf("%T", err)
	}
	return errors.CodeUnknown, fmt.Sprintf("%T", err)
}

type gExec struct {
	outcome     vs.Outcome
	err         error
	setupErr    error
	late        []string // probe lines written after Run had returned
	evs         []pEv
	events      []vs.Event
	chunks      []vs.Chunk
	steps       int
	simSec      float64
	hash        uint64
	strategy    string
	log         []string
	blocked     []string
	reach       map[string]int
	hazards     int
	cancelFired bool
}

// execG runs program p once. sched decides mask/strategy from ch.
func execG(t *testing.T, ch *vs.Choices, p *gProg, dir string, keepLog bool, parkMode string, allowStrategies []string) *gExec {
	x := &gExec{reach: map[string]int{}}
	for name, content := range p.Files() {
		full := filepath.Join(dir, name)
		_ = os.MkdirAll(filepath.Dir(full), 0o755)
		if err := os.WriteFile(full, []byte(content), 0o644); err != nil {
			x.setupErr = err
			return x
		}
	}
	stdinPath := filepath.Join(dir, ".stdin")
	_ = os.WriteFile(stdinPath, nil, 0o644)
	stdin, err := os.Open(stdinPath)
	if err != nil {
		x.setupErr = err
		return x
	}
	defer stdin.Close()
	func() {
		defer func() {
			if r := recover(); r != nil {
				s := fmt.Sprint(r)
				if !strings.Contains(s, "deadlock") || !strings.Contains(s, "blocked goroutines remain") {
					panic(r)
				}
			}
		}()
		synctest.Test(t, func(t *testing.T) {
			sim := vs.NewSim(ch)
			sim.Strip = dir
			sim.KeepLog = keepLog
			sim.ParkMode = parkMode
			sim.Strategy = vs.NewStrategy(ch, allowStrategies)
			x.strategy = sim.Strategy.Name()
			switch ch.Draw(4) {
			case 0:
				sim.SetMaskByFile(0, 1, 0, 1, nil) // mandatory points only
			case 1:
				sim.SetMaskByFile(1, 1, 1, 1, nil) // every yield
			case 2:
				sim.SetMaskByFile(1, 2, 1, 4, nil)
			case 3:
				sim.SetMaskByFile(1, 1, 1, 16, nil)
			}
			vs.S = sim
			defer func() { vs.S = nil }()
			start := time.Now()
			stdout := &vs.Writer{Sim: sim, Stream: "out", Park: true}
			stderr := &vs.Writer{Sim: sim, Stream: "err", Park: false}
			sim.OnWrite = func(g *vs.G, stream string, b []byte) {
				if stream == "out" && strings.Contains(string(b), "PROMPT-") && strings.HasSuffix(string(b), "]: ") {
					x.reach["prompt_shown"]++
					if p.Answer != "eof" {
						f, err := os.OpenFile(stdinPath, os.O_APPEND|os.O_WRONLY, 0o644)
						if err == nil {
							f.WriteString(p.Answer + "\n")
							f.Close()
						}
					}
				}
			}
			ctx, cancel := context.WithCancel(context.Background())
			defer cancel()
			if p.CancelAtEvent > 0 {
				sim.Triggers = append(sim.Triggers, &vs.Trigger{Name: "caller_cancel", Kind: "event", Match: "|", Count: p.CancelAtEvent, Fn: func() {
					x.cancelFired = true
					cancel()
				}})
			}
			root := sim.Go("m", func() {
				opts := []task.ExecutorOption{
					task.WithDir(dir),
					task.WithStdin(stdin),
					task.WithStdout(stdout),
					task.WithStderr(stderr),
					task.WithConcurrency(p.Conc),
					task.WithParallel(p.Parallel),
					task.WithForce(p.Force),
					task.WithForceAll(p.ForceAll),
					task.WithAssumeYes(p.Yes),
					task.WithAssumeTerm(p.AssumeTerm),
					task.WithVersionCheck(true),
				}
				e := task.NewExecutor(opts...)
				if err := e.Setup(); err != nil {
					x.setupErr = err
					return
				}
				var calls []*task.Call
				for i, r := range p.Roots {
					v := ast.NewVars()
					if effRun(p, p.Tasks[r.Target]) == "always" {
						// a deduplicated task is identified by its variables: it gets no instance path
						v.Set("P", ast.Var{Value: "r" + strconv.Itoa(i)})
					}
					if r.HasV {
						v.Set("V", ast.Var{Value: r.V})
					}
					calls = append(calls, &task.Call{Task: p.refNameA(-1, r.Target, r.Alias), Vars: v})
				}
				x.err = e.Run(ctx, calls...)
			})
			x.outcome = sim.Drive(root)
			x.steps = sim.Steps
			x.simSec = time.Since(start).Seconds()
			x.hash = sim.Hash()
			x.events = sim.Events
			x.chunks = sim.Chunks
			x.log = sim.Log
			x.hazards = sim.Hazards
			for k, v := range sim.Stats {
				x.reach[k] += v
			}
			if x.outcome != vs.Finished {
				x.blocked = sim.BlockedSites("m")
			}
			sim.Drain()
			if x.outcome == vs.Finished {
				// whatever is still running after Run has returned shows up while the remaining goroutines are drained
				for _, l := range sim.Late {
					if strings.HasPrefix(l, "out|") && (strings.Contains(l, "S|") || strings.Contains(l, "E|")) {
						x.late = append(x.late, strings.TrimSpace(strings.TrimPrefix(l, "out|")))
					}
				}
				sort.Strings(x.late)
			}
		})
	}()
	for _, ev := range x.events {
		if ev.Stream != "out" {
			continue
		}
		line := ev.Line
		if strings.HasPrefix(line, "PROMPT-") {
			// a prompt has no trailing newline: the next probe line of that goroutine is glued to it
			if i := strings.Index(line, "]: "); i >= 0 {
				line = line[i+3:]
			}
		}
		if pe, ok := parseProbe(ev.Seq, ev.G, line); ok {
			x.evs = append(x.evs, pe)
		}
	}
	return x
}

var gRunCounter int

func newRunDir() (string, error) {
	base := vs.Cfg("VERIF_WORKROOT")
	if base == "" {
		base = os.TempDir()
	}
	gRunCounter++
	dir := filepath.Join(base, fmt.Sprintf("verif-run-%d-%d", os.Getpid(), gRunCounter))
	_ = os.RemoveAll(dir)
	return dir, os.MkdirAll(dir, 0o755)
}

// expectedExits: the set of exit statuses the property text allows for the generated failures.
func (m *gModel) expectedExits(flagX bool) (map[int]bool, bool) {
	set := map[int]bool{}
	anyNonZero := false
	var walk func(in *gInst, viaCall bool)
	walk = func(in *gInst, viaCall bool) {
		if m.res(in) {
			return
		}
		if in.Guard != "" {
			if viaCall {
				anyNonZero = true
				return
			}
			switch strings.Split(in.Guard, "|")[0] {
			case "requires":
				set[206] = true
			case "enum":
				set[207] = true
			case "prompt_noterm", "prompt_declined":
				set[205] = true
				if m.p.Answer == "eof" && in.Guard == "prompt_declined" {
					set[1] = true
				}
			case "precond", "dynvar":
				set[1] = true
			case "internal":
				set[202] = true
			}
			return
		}
		failedDeps := false
		for _, d := range in.Deps {
			if !m.res(d) {
				failedDeps = true
				walk(d, viaCall)
			}
		}
		if failedDeps {
			return
		}
		sp := m.stopPos(in)
		if sp < 0 {
			return
		}
		e := in.Ents[sp]
		if e.Kind == gProbe {
			if flagX {
				set[e.Fail] = true
			} else {
				set[201] = true
			}
			return
		}
		walk(e.Callee, true)
	}
	for _, r := range m.roots {
		walk(r, false)
	}
	return set, anyNonZero
}

// runG: one generated program, one execution -- or, in the fault-enumeration mode of C03, one generated
// failure-free program executed once per command position with that command failing.
func runG(t *testing.T, ch *vs.Choices, prop, tier string, render bool) *vs.RunOut {
	b := biasFor(prop, tier)
	if prop == "C03" && ch.Bool(1, 3) {
		b.PFail = 0
		p := genG(ch, b)
		code := 1 + ch.Draw(255)
		type pos struct{ t, c int }
		var all []pos
		for _, tk := range p.Tasks {
			for ci, c := range tk.Cmds {
				if c.Kind == gProbe && !c.Defer {
					all = append(all, pos{tk.Idx, ci})
				}
			}
		}
		maxPos := 8
		if tier == "thorough" {
			maxPos = 40
		}
		var agg *vs.RunOut
		for i, ps := range all {
			if i >= maxPos {
				break
			}
			q := cloneProg(p)
			q.Tasks[ps.t].Cmds[ps.c].Fail = code
			vs.Tick()
			o := runGOne(t, ch, q, prop, render)
			o.Hit("fault_enumeration:failing_position")
			agg = mergeRunOut(agg, o)
		}
		if agg != nil {
			agg.Hit("fault_enumeration:programs")
			return agg
		}
		return runGOne(t, ch, p, prop, render)
	}
	if prop == "C14" && ch.Bool(1, 4) {
		// cancellation-point enumeration: one program, executed once per event index k = 1, 2, ... at which the
		// caller's context is cancelled, until the run ends before the k-th event (each execution under its own
		// drawn schedule)
		b.Cancel = false
		p := genG(ch, b)
		maxK := 10
		if tier == "thorough" {
			maxK = 60
		}
		var agg *vs.RunOut
		for k := 1; k <= maxK; k++ {
			q := cloneProg(p)
			q.CancelAtEvent = k
			vs.Tick()
			o := runGOne(t, ch, q, prop, render)
			fired := o.Reach["fault:caller_cancel"] > 0
			if fired {
				o.Hit("fault_enumeration:cancel_point")
			}
			agg = mergeRunOut(agg, o)
			if !fired {
				agg.Hit("fault_enumeration:programs_exhausted")
				break
			}
		}
		agg.Hit("fault_enumeration:programs")
		return agg
	}
	return runGOne(t, ch, genG(ch, b), prop, render)
}

// mergeRunOut folds one execution of an enumeration into the run's result (first violation wins).
func mergeRunOut(agg, o *vs.RunOut) *vs.RunOut {
	if agg == nil {
		return o
	}
	agg.Steps += o.Steps
	agg.SimSeconds += o.SimSeconds
	agg.Hash = agg.Hash*1099511628211 ^ o.Hash
	agg.NonTrivial = agg.NonTrivial || o.NonTrivial
	for k, v := range o.Reach {
		agg.Reach[k] += v
	}
	agg.Foreign = append(agg.Foreign, o.Foreign...)
	if len(o.Violations) > 0 && len(agg.Violations) == 0 {
		agg.Violations, agg.Rendered = o.Violations, o.Rendered
	}
	if o.HarnessError != "" {
		agg.HarnessError = o.HarnessError
	}
	if o.Inconclusive != "" {
		agg.Inconclusive = o.Inconclusive
	}
	return agg
}

func cloneProg(p *gProg) *gProg {
	q := *p
	q.Tasks = make([]*gTask, len(p.Tasks))
	for i, t := range p.Tasks {
		c := *t
		c.Deps = append([]gRef(nil), t.Deps...)
		c.Cmds = append([]gCmd(nil), t.Cmds...)
		q.Tasks[i] = &c
	}
	q.Roots = append([]gRoot(nil), p.Roots...)
	return &q
}

func runGOne(t *testing.T, ch *vs.Choices, p *gProg, prop string, render bool) *vs.RunOut {
	out := &vs.RunOut{Reach: map[string]int{}}
	m := newGModel(p)
	if !m.build(100000) {
		out.HarnessError = "model build over budget"
		return out
	}
	yaml := p.YAML()
	out.Shape = vs.HashString(yaml + fmt.Sprint(p.Config()))
	dir, err := newRunDir()
	if err != nil {
		out.HarnessError = err.Error()
		return out
	}
	defer os.RemoveAll(dir)
	x := execG(t, ch, p, dir, render, "line", nil)
	out.Steps, out.SimSeconds, out.Hash, out.Strategy = x.steps, x.simSec, x.hash, x.strategy
	for k, v := range x.reach {
		out.Reach[k] = v
	}
	if x.setupErr != nil {
		out.HarnessError = "setup: " + x.setupErr.Error() + "\n" + yaml
		return out
	}
	if x.hazards > 0 {
		out.Hit("hazard_block_under_lock")
	}
	if x.cancelFired {
		out.Hit("fault:caller_cancel")
	}
	finished := x.outcome == vs.Finished
	code, class := mapExit(x.err, p.ExitCodeFlag)
	verdicts := m.check(x.evs, p.Conc, finished, x.err == nil, class, code, x.cancelFired, x.outcome == vs.Deadlock)
	if len(x.late) > 0 {
		// Run returns only when every task it started is over: dependencies are joined, calls are synchronous
		verdicts = append(verdicts, gVerdict{"C02", "commands_still_running_after_run_returned", fmt.Sprintf("Run had returned (%v) but task commands went on writing afterwards: %v", x.err, clipList(x.late, 4))})
	}
	switch x.outcome {
	case vs.Deadlock:
		verdicts = append(verdicts, gVerdict{"C07", "deadlock|" + deadlockSig(x.blocked), fmt.Sprintf("no goroutine can run and Run has not returned: %v", x.blocked)})
	case vs.StepCap:
		out.Inconclusive = "stepcap"
	}
	// exit status (C03 for command failures, C13 for guards)
	if finished && !x.cancelFired {
		anyFail := false
		for _, r := range m.roots {
			if !m.res(r) {
				anyFail = true
			}
		}
		internalRoot := false
		for _, r := range p.Roots {
			if p.Tasks[r.Target].Internal {
				internalRoot = true
			}
		}
		if internalRoot {
			if code != 202 {
				verdicts = append(verdicts, gVerdict{"C13", "internal_root_status", fmt.Sprintf("an internal task was named as root call, exit status %d (%s), want 202", code, class)})
			}
			if len(x.evs) > 0 {
				verdicts = append(verdicts, gVerdict{"C13", "internal_root_ran", "an internal task was named as root call but commands ran"})
			}
			verdicts = dropFinalChecks(verdicts)
		} else if anyFail && x.err != nil {
			set, anyNZ := m.expectedExits(p.ExitCodeFlag)
			if !set[code] && !(anyNZ && code != 0) {
				origins := map[string]bool{}
				cc := &gChecker{m: m}
				guardOnly, exitOnly := true, true
				for _, r := range m.roots {
					if !m.res(r) {
						o := cc.failOrigin(r)
						origins[originClass(o)] = true
						if strings.Contains(o, "guard_") {
							exitOnly = false
						} else {
							guardOnly = false
						}
					}
				}
				prop := "C03"
				if guardOnly && !exitOnly {
					prop = "C13"
				}
				sig := "exit_status_wrong|" + strings.Join(sortedKeys(origins), ",") + fmt.Sprintf("|x=%v", p.ExitCodeFlag)
				if stderrors.Is(x.err, context.Canceled) {
					// nobody cancelled the caller's context: the cancellation error of a shared execution, cut
					// short by a failure in its first caller's group, surfaced through a waiter in another group
					nShared := 0
					for _, in := range m.order {
						if in.Shared {
							nShared++
						}
					}
					if nShared > 0 {
						sig = "exit_status_is_context_canceled|via_shared_execution"
					}
				}
				verdicts = append(verdicts, gVerdict{prop, sig,
					fmt.Sprintf("exit status %d (%s: %v), allowed %v", code, class, x.err, sortedIntKeys(set))})
			}
		}
	}
	// Documented behaviour that contradicts C13 as written: --force skips preconditions. Once a run contains
	// a forced task whose precondition fails, the model and the program disagree about everything behind it;
	// such a run is only used to report that one (known) finding.
	tainted := false
	for _, in := range m.order {
		if in.Guard == "precond|forced" {
			tainted = true
		}
	}
	if tainted {
		var keep []gVerdict
		for _, v := range verdicts {
			if v.Prop == "C13" && v.Sig == "guard_ignored|precond|forced" {
				keep = append(keep, v)
			}
		}
		verdicts = keep
		out.Hit("tainted_forced_precondition")
	}
	for _, v := range verdicts {
		if v.Prop == prop {
			out.Violate(v.Prop, v.Sig, "%s", v.Msg)
		} else {
			out.Foreign = append(out.Foreign, vs.Violation{Prop: v.Prop, Sig: v.Sig, Msg: v.Msg})
		}
	}
	gReach(out, p, m, x, prop)
	if render {
		out.Rendered = map[string]any{
			"files":    p.Files(),
			"config":   p.Config(),
			"strategy": x.strategy,
			"outcome":  x.outcome.String(),
			"error":    vs.StripDir(fmt.Sprint(x.err), dir),
			"exit":     code,
			"trace":    traceLines(x.events),
			"schedule": x.log,
			"steps":    x.steps,
		}
	}
	return out
}

func dropFinalChecks(v []gVerdict) []gVerdict {
	var out []gVerdict
	for _, x := range v {
		if strings.HasPrefix(x.Sig, "failure_swallowed") || strings.HasPrefix(x.Sig, "work_missing") || strings.HasPrefix(x.Sig, "error_without_failure") || strings.HasPrefix(x.Sig, "shared_execution_missing") {
			continue
		}
		out = append(out, x)
	}
	return out
}

// originClass reduces a failure path like "dep>shared_call>cmd" to how the failure reaches the root:
// first link + terminal.
func originClass(o string) string {
	parts := strings.Split(o, ">")
	if len(parts) == 1 {
		return "root:" + parts[0]
	}
	return "root_" + parts[0] + ":" + parts[len(parts)-1]
}

func sortedIntKeys(m map[int]bool) []int {
	var ks []int
	for k := range m {
		ks = append(ks, k)
	}
	for i := range ks {
		for j := i + 1; j < len(ks); j++ {
			if ks[j] < ks[i] {
				ks[i], ks[j] = ks[j], ks[i]
			}
		}
	}
	return ks
}

func deadlockSig(blocked []string) string {
	// where do the blocked goroutines sit (site names only, sorted, deduplicated)
	set := map[string]bool{}
	for _, b := range blocked {
		if i := strings.IndexByte(b, ' '); i >= 0 {
			b = b[i+1:]
		}
		if i := strings.LastIndexByte(b, ':'); i >= 0 {
			b = b[:i] // no line numbers in signatures
		}
		set[b] = true
	}
	return strings.Join(sortedKeys(set), ",")
}

func traceLines(evs []vs.Event) []string {
	var out []string
	for _, e := range evs {
		out = append(out, fmt.Sprintf("%d %s %s %s", e.Seq, e.G, e.Stream, e.Line))
	}
	return out
}

// gReach records reach probes and decides whether the run reached the property's trigger condition.
func gReach(out *vs.RunOut, p *gProg, m *gModel, x *gExec, prop string) {
	shared, sharedRefs, fails, defers, guards, loops := 0, 0, 0, 0, 0, 0
	for _, in := range m.order {
		if in.Shared {
			shared++
		}
		for _, d := range in.Deps {
			if d.Shared {
				sharedRefs++
			}
		}
		if in.Guard != "" || in.Skip {
			guards++
		}
		for _, e := range in.Ents {
			if e.Callee != nil && e.Callee.Shared {
				sharedRefs++
			}
			if e.Kind == gProbe && e.Fail > 0 {
				if _, ok := in.sSeq[e.Lab]; ok {
					fails++
				}
			}
			if e.Defer {
				if c := (&gChecker{m: m}).entStarted(in, e); c < inf {
					defers++
				}
			}
			if strings.Contains(e.Lab, ".") {
				loops++
			}
		}
	}
	if fails > 0 {
		out.Hit("fault:cmd_fail")
	}
	if n := x.reach["block:recv@task.go"]; n > 0 {
		out.Hit("dedup_wait")
	}
	if x.reach["block:send@concurrency.go"]+x.reach["block:recv@concurrency.go"] > 0 {
		out.Hit("slot_op")
	}
	if defers > 0 {
		out.Hit("defer_ran")
	}
	if guards > 0 {
		out.Hit("guard_tripped_or_skipped")
	}
	conc := 0
	gset := map[string]bool{}
	for _, e := range x.evs {
		gset[e.G] = true
	}
	conc = len(gset)
	if conc > 1 {
		out.Hit("multi_goroutine_commands")
	}
	switch prop {
	case "C01":
		out.NonTrivial = sharedRefs >= 2 && conc > 1 || (conc > 1 && len(x.evs) >= 4)
	case "C02":
		out.NonTrivial = len(x.evs) >= 6
	case "C03":
		out.NonTrivial = fails > 0
	case "C06":
		out.NonTrivial = sharedRefs >= 2
	case "C07":
		out.NonTrivial = conc > 1 && p.Conc > 0
	case "C13":
		out.NonTrivial = guards > 0
	case "C14":
		out.NonTrivial = defers > 0
	default:
		out.NonTrivial = len(x.evs) >= 4
	}
}
