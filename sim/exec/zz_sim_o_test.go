package task_test

// Family O (C17): concurrently running commands with arbitrary chunkings of their output, under
// output: group / prefixed. The shared stdout parks on every Write (chunk mode), so the scheduler
// decides the interleaving of the resulting writes. Oracle: the byte stream that reached stdout.

import (
	"context"
	"fmt"
	"os"
	"path/filepath"
	"sort"
	"strings"
	"testing"
	"testing/synctest"
	"time"

	"github.com/go-task/task/v3"
	vs "github.com/go-task/task/v3/internal/verifsim"
)

type oCmd struct {
	ID     string
	Chunks []string // each chunk is one printf (one Write into the wrapper)
	Fail   int      // exit code after printing (entry carries ignore_error)
	Stderr []bool   // chunk goes to stderr (same wrapper in group/prefixed mode)
}

type oTask struct {
	Name   string
	Prefix string // custom prefix ("" = task name)
	Deps   []int
	Cmds   []oCmd
}

type oProg struct {
	Tasks     []*oTask
	Style     string // group, prefixed
	Begin     bool
	End       bool
	ErrorOnly bool
	Conc      int
}

func genO(ch *vs.Choices, tier string) *oProg {
	p := &oProg{Style: []string{"group", "prefixed"}[ch.Draw(2)]}
	if p.Style == "group" {
		p.Begin = ch.Bool(1, 2)
		p.End = ch.Bool(1, 2)
		p.ErrorOnly = ch.Bool(1, 4)
	}
	p.Conc = []int{0, 0, 2, 3}[ch.Draw(4)]
	n := 2 + ch.Draw(4)
	if tier == "thorough" {
		n = 2 + ch.Draw(6)
	}
	big := ch.Bool(1, 4)
	// t0 is the root; every other task is a dep of an earlier one (tree)
	for i := 0; i <= n; i++ {
		t := &oTask{Name: fmt.Sprintf("o%d", i)}
		if ch.Bool(1, 4) {
			t.Prefix = fmt.Sprintf("pre-%d", i)
			if ch.Bool(1, 3) {
				t.Prefix = fmt.Sprintf("cov>=8%d%%s%%", i) // a prefix is data, whatever it looks like to a formatter
			}
		}
		nc := 1 + ch.Draw(3)
		for k := 0; k < nc; k++ {
			c := oCmd{ID: fmt.Sprintf("%d.%d", i, k)}
			nch := ch.Draw(5)
			for j := 0; j < nch; j++ {
				var s string
				switch ch.Draw(6) {
				case 0:
					s = fmt.Sprintf("L%s.%d\n", c.ID, j)
				case 1:
					s = fmt.Sprintf("P%s.%d", c.ID, j) // partial line
				case 2:
					s = fmt.Sprintf("A%s.%d\nB%s.%d\n", c.ID, j, c.ID, j)
				case 3:
					s = fmt.Sprintf("M%s.%d\ntail%s.%d", c.ID, j, c.ID, j)
				case 4:
					s = "\n"
				case 5:
					s = fmt.Sprintf("x%s.%d y z\n", c.ID, j)
				}
				if big && ch.Bool(1, 6) {
					// a large chunk: output sizes must not matter either (buffer thresholds, chunked copies)
					s = fmt.Sprintf("G%s.%d:", c.ID, j) + strings.Repeat("0123456789abcdef", 1024*(1+ch.Draw(6))) + "\n"
				}
				c.Chunks = append(c.Chunks, s)
				c.Stderr = append(c.Stderr, ch.Bool(1, 6))
			}
			if ch.Bool(1, 4) {
				c.Fail = 1 + ch.Draw(9)
			}
			t.Cmds = append(t.Cmds, c)
		}
		p.Tasks = append(p.Tasks, t)
	}
	for i := 1; i <= n; i++ {
		parent := ch.Draw(i)
		if ch.Bool(2, 3) {
			parent = 0
		}
		p.Tasks[parent].Deps = append(p.Tasks[parent].Deps, i)
	}
	return p
}

func shq(s string) string {
	// printf format inside single quotes: newline as \n, percent doubled
	s = strings.ReplaceAll(s, `\`, `\\`)
	s = strings.ReplaceAll(s, "%", "%%")
	s = strings.ReplaceAll(s, "\n", `\n`)
	return "'" + s + "'"
}

func (p *oProg) YAML() string {
	var sb strings.Builder
	sb.WriteString("version: '3'\nsilent: true\n")
	if p.Style == "prefixed" {
		sb.WriteString("output: prefixed\n")
	} else {
		sb.WriteString("output:\n  group:\n")
		if p.Begin {
			sb.WriteString("    begin: '<<{{.TASK}}'\n")
		}
		if p.End {
			sb.WriteString("    end: '>>{{.TASK}}'\n")
		}
		fmt.Fprintf(&sb, "    error_only: %v\n", p.ErrorOnly)
	}
	sb.WriteString("tasks:\n")
	for _, t := range p.Tasks {
		fmt.Fprintf(&sb, "  %s:\n", t.Name)
		if t.Prefix != "" {
			fmt.Fprintf(&sb, "    prefix: '%s'\n", t.Prefix)
		}
		if len(t.Deps) > 0 {
			sb.WriteString("    deps:\n")
			for _, d := range t.Deps {
				fmt.Fprintf(&sb, "      - %s\n", p.Tasks[d].Name)
			}
		}
		sb.WriteString("    cmds:\n")
		for _, c := range t.Cmds {
			var parts []string
			for j, chk := range c.Chunks {
				s := "printf " + shq(chk)
				if c.Stderr[j] {
					s += " >&2"
				}
				parts = append(parts, s)
			}
			if c.Fail > 0 {
				parts = append(parts, fmt.Sprintf("exit %d", c.Fail))
			}
			if len(parts) == 0 {
				parts = append(parts, "true")
			}
			fmt.Fprintf(&sb, "      - cmd: %s\n        ignore_error: true\n", yq(strings.Join(parts, "; ")))
		}
	}
	return sb.String()
}

// expected output units
func (p *oProg) expectedGroupBlocks() []string {
	var out []string
	for _, t := range p.Tasks {
		for _, c := range t.Cmds {
			body := strings.Join(c.Chunks, "")
			if body == "" {
				continue
			}
			if p.ErrorOnly && c.Fail == 0 {
				continue
			}
			b := ""
			if p.Begin {
				b += "<<" + t.Name + "\n"
			}
			b += body
			if p.End {
				b += ">>" + t.Name + "\n"
			}
			out = append(out, b)
		}
	}
	return out
}

func (p *oProg) expectedPrefixedLines() []string {
	var out []string
	for _, t := range p.Tasks {
		pre := t.Prefix
		if pre == "" {
			pre = t.Name
		}
		for _, c := range t.Cmds {
			body := strings.Join(c.Chunks, "")
			if body == "" {
				continue
			}
			lines := strings.SplitAfter(body, "\n")
			for _, l := range lines {
				if l == "" {
					continue
				}
				if !strings.HasSuffix(l, "\n") {
					l += "\n"
				}
				out = append(out, "["+pre+"] "+l)
			}
		}
	}
	return out
}

func runO(t *testing.T, ch *vs.Choices, prop, tier string, render bool) *vs.RunOut {
	out := &vs.RunOut{Reach: map[string]int{}}
	p := genO(ch, tier)
	yaml := p.YAML()
	out.Shape = vs.HashString(yaml)
	dir, err := newRunDir()
	if err != nil {
		out.HarnessError = err.Error()
		return out
	}
	defer os.RemoveAll(dir)
	if err := os.WriteFile(filepath.Join(dir, "Taskfile.yml"), []byte(yaml), 0o644); err != nil {
		out.HarnessError = err.Error()
		return out
	}
	stdinPath := filepath.Join(dir, ".stdin")
	_ = os.WriteFile(stdinPath, nil, 0o644)
	stdin, _ := os.Open(stdinPath)
	defer stdin.Close()
	var runErr, setupErr error
	var outcome vs.Outcome
	var chunks []vs.Chunk
	var log []string
	var blocked []string
	func() {
		defer func() {
			if r := recover(); r != nil {
				s := fmt.Sprint(r)
				if !strings.Contains(s, "deadlock") {
					panic(r)
				}
			}
		}()
		synctest.Test(t, func(t *testing.T) {
			sim := vs.NewSim(ch)
			sim.Strip = dir
			sim.KeepLog = render
			sim.ParkMode = "chunk"
			sim.Strategy = vs.NewStrategy(ch, []string{"random", "random", "sticky", "pct", "starve"})
			out.Strategy = sim.Strategy.Name()
			switch ch.Draw(3) {
			case 0:
				sim.SetMaskByFile(0, 1, 0, 1, nil)
			case 1:
				sim.SetMaskByFile(0, 1, 0, 1, []string{"internal/output/"})
			case 2:
				sim.SetMaskByFile(1, 3, 1, 4, []string{"internal/output/"})
			}
			vs.S = sim
			defer func() { vs.S = nil }()
			start := time.Now()
			stdout := &vs.Writer{Sim: sim, Stream: "out", Park: true}
			stderr := &vs.Writer{Sim: sim, Stream: "err", Park: false}
			root := sim.Go("m", func() {
				e := task.NewExecutor(task.WithDir(dir), task.WithStdin(stdin), task.WithStdout(stdout), task.WithStderr(stderr),
					task.WithConcurrency(p.Conc), task.WithVersionCheck(true))
				if err := e.Setup(); err != nil {
					setupErr = err
					return
				}
				runErr = e.Run(context.Background(), &task.Call{Task: "o0"})
			})
			outcome = sim.Drive(root)
			out.Steps = sim.Steps
			out.SimSeconds = time.Since(start).Seconds()
			out.Hash = sim.Hash()
			chunks = sim.Chunks
			log = sim.Log
			if outcome != vs.Finished {
				blocked = sim.BlockedSites("m")
			}
			sim.Drain()
		})
	}()
	if setupErr != nil {
		out.HarnessError = "setup: " + setupErr.Error() + "\n" + yaml
		return out
	}
	if outcome != vs.Finished {
		if outcome == vs.StepCap {
			out.Inconclusive = "stepcap"
		} else {
			out.Violate("C17", "run_did_not_finish|"+outcome.String(), "run did not finish: %v", blocked)
		}
		return out
	}
	if runErr != nil {
		out.HarnessError = "family O programs never fail, Run returned: " + runErr.Error() + "\n" + yaml
		return out
	}
	var stream strings.Builder
	writers := map[string]bool{}
	nOut := 0
	for _, c := range chunks {
		if c.Stream == "out" {
			stream.WriteString(c.Data)
			writers[c.G] = true
			nOut++
		}
	}
	s := stream.String()
	if len(writers) > 1 {
		out.Hit("stdout_written_by_several_goroutines")
		out.NonTrivial = true
	}
	switch p.Style {
	case "group":
		want := p.expectedGroupBlocks()
		used := make([]bool, len(want))
		// backtracking parse: blocks consisting only of newlines can be prefixes of one another
		budget := 200000
		var parse func(rest string) (bool, string)
		parse = func(rest string) (bool, string) {
			if rest == "" {
				return true, ""
			}
			budget--
			if budget < 0 {
				return true, "" // give up silently: never report what was not decided
			}
			deepest := rest
			seen := map[string]bool{}
			for i, b := range want {
				if used[i] || seen[b] || !strings.HasPrefix(rest, b) {
					continue
				}
				seen[b] = true
				used[i] = true
				ok, d := parse(rest[len(b):])
				if ok {
					return true, ""
				}
				used[i] = false
				if len(d) < len(deepest) {
					deepest = d
				}
			}
			return false, deepest
		}
		ok, rest := parse(s)
		if !ok {
			sig := "group_stream_torn"
			if p.Begin {
				sig = "group_block_interleaved|begin_line_separate"
			}
			out.Violate("C17", sig, "stdout is not a concatenation of whole command blocks; unparsable rest starts with %q", clip(rest, 160))
		} else if budget >= 0 {
			for i, b := range want {
				if !used[i] {
					out.Violate("C17", "group_block_lost", "block %q never reached stdout", clip(b, 120))
					break
				}
			}
		}
	case "prefixed":
		want := p.expectedPrefixedLines()
		got := strings.SplitAfter(s, "\n")
		if len(got) > 0 && got[len(got)-1] == "" {
			got = got[:len(got)-1]
		}
		w := append([]string(nil), want...)
		g := append([]string(nil), got...)
		sort.Strings(w)
		sort.Strings(g)
		if strings.Join(w, "") != strings.Join(g, "") {
			// find the first difference
			msg := ""
			i := 0
			for i < len(w) && i < len(g) && w[i] == g[i] {
				i++
			}
			if i < len(g) {
				msg = fmt.Sprintf("unexpected line %q", g[i])
			}
			if i < len(w) {
				msg += fmt.Sprintf(" missing line %q", w[i])
			}
			sig := "prefixed_lines_differ"
			if len(g) < len(w) {
				sig = "prefixed_line_lost"
			} else if len(g) > len(w) {
				sig = "prefixed_line_extra"
			}
			out.Violate("C17", sig, "prefixed output is not the multiset of prefixed command lines: %s", msg)
		}
	}
	if render {
		var tr []string
		for _, c := range chunks {
			if c.Stream == "out" {
				tr = append(tr, fmt.Sprintf("%d %s %q", c.Step, c.G, c.Data))
			}
		}
		out.Rendered = map[string]any{"files": map[string]string{"Taskfile.yml": yaml}, "config": map[string]any{"concurrency": p.Conc}, "strategy": out.Strategy,
			"trace": tr, "schedule": log, "steps": out.Steps}
	}
	return out
}

func clip(s string, n int) string {
	if len(s) > n {
		return s[:n] + "…"
	}
	return s
}
