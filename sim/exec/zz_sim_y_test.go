package task_test

// Family Y (C07): (A) cyclic task references must end with the "called too many times" error (204, or 201
// wrapping it) instead of hanging or recursing without bound; (B) progress: independent dependencies start
// without waiting for one another whenever the limit allows (max simultaneously running commands under the
// hold-open strategy == min(width, N)).

import (
	"context"
	"fmt"
	"os"
	"path/filepath"
	"strings"
	"testing"
	"testing/synctest"
	"time"

	"github.com/go-task/task/v3"
	vs "github.com/go-task/task/v3/internal/verifsim"
)

type yProg struct {
	Kind      string // cycle, fanout
	YAML      string
	Calls     []string
	Conc      int
	Parallel  bool
	Dedup     string // cycle: "" or once / when_changed on a cycle member
	EdgeKinds []string
	Width     int
	MaxCalls  int  // cycle: the value the run uses for the MaximumTaskCall constant (a tuning knob of the system)
	DeferLeg  bool // cycle: some leg is a deferred task call (whose error is ignored)
}

func genY(ch *vs.Choices, tier string) *yProg {
	p := &yProg{}
	var sb strings.Builder
	sb.WriteString("version: '3'\nsilent: true\n")
	if ch.Bool(1, 2) {
		p.Kind = "cycle"
		k := 1 + ch.Draw(3)
		p.Conc = []int{0, 1, 2}[ch.Draw(3)]
		// the call limit that cuts cycles off is 1000 in the shipped binary; most runs use a smaller one so that a
		// cycle costs tens instead of thousands of task calls
		p.MaxCalls = []int{5, 12, 12, 40, 40, 120, 1000}[ch.Draw(7)]
		uniform := ""
		if ch.Bool(1, 3) {
			uniform = []string{"alias", "wildcard", "rooted", "plain"}[ch.Draw(4)] // every leg named the same way
		}
		if ch.Bool(1, 5) {
			p.Dedup = []string{"once", "when_changed"}[ch.Draw(2)]
		}
		sb.WriteString("tasks:\n")
		// tasks c0..c(k-1); ci references c((i+1)%k)
		names := make([]string, k)
		refs := make([]string, k)
		for i := 0; i < k; i++ {
			names[i] = fmt.Sprintf("c%d", i)
		}
		for i := 0; i < k; i++ {
			j := (i + 1) % k
			naming := []string{"plain", "alias", "wildcard", "rooted"}[ch.Draw(4)]
			if uniform != "" {
				naming = uniform
			}
			if uniform == "wildcard" {
				// the cycle members themselves are wildcard tasks 'cI-*', always called as cI-x
				refs[i] = names[j] + "-x"
				p.EdgeKinds = append(p.EdgeKinds, "selfwildcard")
				continue
			}
			switch naming {
			case "plain":
				refs[i] = names[j]
			case "alias":
				refs[i] = "al-" + names[j]
			case "wildcard":
				refs[i] = "w" + names[j] + "-x"
			case "rooted":
				refs[i] = ":" + names[j]
			}
			p.EdgeKinds = append(p.EdgeKinds, naming)
		}
		for i := 0; i < k; i++ {
			// a task is reachable by its name, by an alias and (separately) by a wildcard twin that calls it
			if uniform == "wildcard" {
				fmt.Fprintf(&sb, "  '%s-*':\n", names[i])
			} else {
				fmt.Fprintf(&sb, "  %s:\n    aliases: [al-%s]\n", names[i], names[i])
			}
			if p.Dedup != "" && i == 0 {
				fmt.Fprintf(&sb, "    run: %s\n", p.Dedup)
			}
			if ch.Bool(1, 4) {
				// ignore_error forgives failing commands, not the error that cuts a cycle off
				sb.WriteString("    ignore_error: true\n")
				p.EdgeKinds[i] += "+ign"
			}
			via := []string{"dep", "cmd", "dep", "cmd", "defer"}[ch.Draw(5)]
			p.EdgeKinds[i] += "/" + via
			if via == "defer" {
				// a deferred task call: its error is ignored by design, so such a cycle may end without an error --
				// but it must end
				p.DeferLeg = true
				fmt.Fprintf(&sb, "    cmds:\n      - echo \"S|%s\"\n      - defer: {task: %s}\n", names[i], yq(refs[i]))
			} else if via == "dep" {
				fmt.Fprintf(&sb, "    deps: [%s]\n    cmds:\n      - echo \"S|%s\"\n", yq(refs[i]), names[i])
			} else {
				fmt.Fprintf(&sb, "    cmds:\n      - echo \"S|%s\"\n      - task: %s\n", names[i], yq(refs[i]))
			}
			// wildcard twin: "wcI-*" forwards to cI
			if uniform != "wildcard" {
				fmt.Fprintf(&sb, "  'w%s-*':\n    cmds:\n      - task: %s\n", names[i], names[i])
			}
		}
		p.Calls = []string{"c0"}
		if uniform == "wildcard" {
			p.Calls = []string{"c0-x"}
		}
		if p.MaxCalls == 1000 {
			// the shipped limit is only affordable within the step budget for a cycle of one task without a
			// forwarding wildcard twin (a three-task cycle through twins needs 6 000 task calls)
			twin := false
			for _, ek := range p.EdgeKinds {
				if strings.HasPrefix(ek, "wildcard") {
					twin = true
				}
			}
			if k > 1 || twin {
				p.MaxCalls = 120
			}
		}
		p.YAML = sb.String()
		return p
	}
	p.Kind = "fanout"
	p.Width = 2 + ch.Draw(4)
	p.Conc = []int{0, 1, 2, 3, 4}[ch.Draw(5)]
	p.Parallel = ch.Bool(1, 3)
	nested := ch.Bool(1, 3)
	sb.WriteString("tasks:\n")
	var leaves []string
	for i := 0; i < p.Width; i++ {
		n := fmt.Sprintf("f%d", i)
		leaves = append(leaves, n)
		fmt.Fprintf(&sb, "  %s:\n", n)
		if nested {
			fmt.Fprintf(&sb, "    deps: [g%d]\n", i)
		}
		fmt.Fprintf(&sb, "    cmds:\n      - echo \"S|%s\"; echo \"E|%s\"\n", n, n)
		if nested {
			fmt.Fprintf(&sb, "  g%d:\n    cmds:\n      - echo \"S|g%d\"; echo \"E|g%d\"\n", i, i, i)
		}
	}
	if p.Parallel {
		p.Calls = leaves
	} else {
		fmt.Fprintf(&sb, "  root:\n    deps: [%s]\n    cmds:\n      - echo \"S|root\"; echo \"E|root\"\n", strings.Join(leaves, ", "))
		p.Calls = []string{"root"}
	}
	p.YAML = sb.String()
	return p
}

func runY(t *testing.T, ch *vs.Choices, prop, tier string, render bool) *vs.RunOut {
	out := &vs.RunOut{Reach: map[string]int{}}
	p := genY(ch, tier)
	out.Shape = vs.HashString(p.YAML + fmt.Sprint(p.Calls, p.Conc, p.Parallel, p.MaxCalls))
	if p.MaxCalls > 0 {
		vs.Knobs = map[string]int{"MaximumTaskCall": p.MaxCalls}
		defer func() { vs.Knobs = nil }()
	}
	dir, err := newRunDir()
	if err != nil {
		out.HarnessError = err.Error()
		return out
	}
	defer os.RemoveAll(dir)
	if err := os.WriteFile(filepath.Join(dir, "Taskfile.yml"), []byte(p.YAML), 0o644); err != nil {
		out.HarnessError = err.Error()
		return out
	}
	stdinPath := filepath.Join(dir, ".stdin")
	_ = os.WriteFile(stdinPath, nil, 0o644)
	stdin, _ := os.Open(stdinPath)
	defer stdin.Close()
	var runErr, setupErr error
	var outcome vs.Outcome
	var events []vs.Event
	var blocked []string
	func() {
		defer func() {
			if r := recover(); r != nil {
				if !strings.Contains(fmt.Sprint(r), "deadlock") {
					panic(r)
				}
			}
		}()
		synctest.Test(t, func(t *testing.T) {
			sim := vs.NewSim(ch)
			sim.Strip = dir
			if p.Kind == "fanout" {
				sim.Strategy = vs.NewHoldOpen()
				sim.SetMaskByFile(0, 1, 0, 1, nil)
			} else {
				sim.Strategy = vs.NewStrategy(ch, []string{"random", "sticky", "starve"})
				// mandatory points plus one yield per RunTask call: a legitimate 1000-call cycle stays far below the
				// cap, and a runaway recursion through task-call commands (which has no blocking primitive at all
				// when there is no concurrency limit) still hands control back to the scheduler
				sim.SetMaskByFile(0, 1, 0, 1, []string{"RunTask: t, err := e.FastCompiledTask(call)"})
				sim.StepCap = 40000 // a legitimate 1000-call cycle needs about 5000-15000 steps
			}
			out.Strategy = sim.Strategy.Name()
			vs.S = sim
			defer func() { vs.S = nil }()
			start := time.Now()
			stdout := &vs.Writer{Sim: sim, Stream: "out", Park: p.Kind == "fanout"}
			stderr := &vs.Writer{Sim: sim, Stream: "err", Park: false}
			root := sim.Go("m", func() {
				e := task.NewExecutor(task.WithDir(dir), task.WithStdin(stdin), task.WithStdout(stdout), task.WithStderr(stderr),
					task.WithConcurrency(p.Conc), task.WithParallel(p.Parallel), task.WithVersionCheck(true))
				if err := e.Setup(); err != nil {
					setupErr = err
					return
				}
				var calls []*task.Call
				for _, c := range p.Calls {
					calls = append(calls, &task.Call{Task: c})
				}
				runErr = e.Run(context.Background(), calls...)
			})
			outcome = sim.Drive(root)
			out.Steps = sim.Steps
			out.SimSeconds = time.Since(start).Seconds()
			out.Hash = sim.Hash()
			events = sim.Events
			if outcome != vs.Finished {
				blocked = sim.BlockedSites("m")
			}
			sim.Drain()
		})
	}()
	if setupErr != nil {
		out.HarnessError = "setup: " + setupErr.Error() + "\n" + p.YAML
		return out
	}
	out.NonTrivial = true
	code, class := mapExit(runErr, false)
	switch p.Kind {
	case "cycle":
		out.Hit("cycle:" + strings.Join(p.EdgeKinds, ","))
		tag := "always"
		if p.Dedup != "" {
			tag = "through_deduplicated_task"
		}
		switch outcome {
		case vs.Deadlock:
			out.Violate("C07", "cycle_deadlock|"+tag, "a cyclic Taskfile (%v) hangs instead of ending with the 'called too many times' error: %v", p.EdgeKinds, clipList(blocked, 6))
		case vs.StepCap:
			out.Violate("C07", "cycle_not_cut_off|"+tag+"|"+namingClass(p.EdgeKinds), "a cyclic Taskfile (%v) was still recursing after %d scheduler steps", p.EdgeKinds, out.Steps)
		default:
			if p.DeferLeg {
				out.Hit("cycle_through_deferred_call_ended")
			} else if runErr == nil {
				out.Violate("C07", "cycle_no_error|"+tag, "a cyclic Taskfile (%v) ended without an error", p.EdgeKinds)
			} else if code != 204 && code != 201 {
				out.Violate("C07", "cycle_wrong_status|"+tag, "a cyclic Taskfile (%v) ended with exit %d (%s: %v), want 204 or 201", p.EdgeKinds, code, class, runErr)
			}
		}
	case "fanout":
		if outcome != vs.Finished {
			out.Violate("C07", "fanout_"+outcome.String(), "fan-out of %d with --concurrency %d did not finish: %v", p.Width, p.Conc, clipList(blocked, 6))
			break
		}
		if runErr != nil {
			out.Violate("C07", "fanout_failed", "fan-out program failed: %v", runErr)
			break
		}
		open, maxOpen := 0, 0
		for _, e := range events {
			if e.Stream != "out" {
				continue
			}
			if strings.HasPrefix(e.Line, "S|") {
				open++
				if open > maxOpen {
					maxOpen = open
				}
			} else if strings.HasPrefix(e.Line, "E|") {
				open--
			}
		}
		want := p.Width
		if p.Conc > 0 && p.Conc < want {
			want = p.Conc
		}
		out.Reach["max_open"] = maxOpen
		if maxOpen > want {
			out.Violate("C07", "concurrency_bound_exceeded|fanout", "%d commands were running at once, width %d, --concurrency %d", maxOpen, p.Width, p.Conc)
		} else if maxOpen < want {
			out.Violate("C07", "independent_deps_not_concurrent", "only %d of %d independent commands could be started at once (width %d, --concurrency %d): dependencies wait for one another although the limit allows more", maxOpen, want, p.Width, p.Conc)
		}
	}
	if render {
		out.Rendered = map[string]any{"files": map[string]string{"Taskfile.yml": p.YAML}, "config": map[string]any{"calls": p.Calls, "concurrency": p.Conc, "parallel": p.Parallel, "MaximumTaskCall": p.MaxCalls},
			"strategy": out.Strategy, "outcome": outcome.String(), "error": fmt.Sprint(runErr), "exit": code, "trace": traceLines(events), "steps": out.Steps}
	}
	return out
}

func namingClass(kinds []string) string {
	set := map[string]bool{}
	for _, k := range kinds {
		set[strings.Split(k, "/")[0]] = true
	}
	return strings.Join(sortedKeys(set), "+")
}

func clipList(l []string, n int) []string {
	if len(l) > n {
		return l[:n]
	}
	return l
}
