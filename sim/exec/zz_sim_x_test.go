package task_test

// Family X (C18), race-sim: the same generated concurrent Taskfiles as family G, but built with -race and
// WITHOUT inserted yields (a serialising scheduler would hide every race from a happens-before detector).
// Commands park at their stdout writes and are released in batches, so that compile -> dedup -> output paths
// of many tasks really overlap. Oracle: the Go race detector (GORACE=log_path), reports filtered to those
// with a go-task frame in both stacks. Between batch releases the interleaving is the Go runtime's: a replay
// reproduces the same racing pair with high probability, not exactly.

import (
	"context"
	"fmt"
	"os"
	"path/filepath"
	"regexp"
	"sort"
	"strconv"
	"strings"
	"sync"
	"testing"
	"time"

	"github.com/go-task/task/v3"
	vs "github.com/go-task/task/v3/internal/verifsim"
	"github.com/go-task/task/v3/taskfile/ast"
)

// gateWriter parks every writer until the releaser opens the gate for all of them at once.
type gateWriter struct {
	mu      sync.Mutex
	cond    *sync.Cond
	gen     int
	waiting int
	closed  bool
	buf     []byte
	park    bool
}

func newGateWriter(park bool) *gateWriter {
	g := &gateWriter{park: park}
	g.cond = sync.NewCond(&g.mu)
	return g
}

func (g *gateWriter) Write(p []byte) (int, error) {
	g.mu.Lock()
	g.buf = append(g.buf, p...)
	if g.park && !g.closed {
		my := g.gen
		g.waiting++
		for g.gen == my && !g.closed {
			g.cond.Wait()
		}
		g.waiting--
	}
	g.mu.Unlock()
	return len(p), nil
}

func (g *gateWriter) release() int {
	g.mu.Lock()
	n := g.waiting
	g.gen++
	g.cond.Broadcast()
	g.mu.Unlock()
	return n
}

func (g *gateWriter) close() {
	g.mu.Lock()
	g.closed = true
	g.cond.Broadcast()
	g.mu.Unlock()
}

var raceLogOffset int64

func raceLogPath() string {
	p := vs.Cfg("VERIF_RACE_LOG")
	if p == "" {
		return ""
	}
	return p + "." + strconv.Itoa(os.Getpid())
}

func readNewRaceReports() string {
	p := raceLogPath()
	if p == "" {
		return ""
	}
	f, err := os.Open(p)
	if err != nil {
		return ""
	}
	defer f.Close()
	st, _ := f.Stat()
	if st.Size() <= raceLogOffset {
		return ""
	}
	b := make([]byte, st.Size()-raceLogOffset)
	_, _ = f.ReadAt(b, raceLogOffset)
	raceLogOffset = st.Size()
	return string(b)
}

var frameRe = regexp.MustCompile(`(?m)^\s+(\S+)\(\)\n\s+(\S+):(\d+)`)

type raceReport struct {
	Sig  string
	Text string
}

// parseRaces splits detector output into reports and keeps those whose two access stacks both contain a
// frame of go-task's own (non-test, non-harness) code.
func parseRaces(txt string) []raceReport {
	var out []raceReport
	for _, rep := range strings.Split(txt, "==================") {
		if !strings.Contains(rep, "WARNING: DATA RACE") {
			continue
		}
		// the two access stacks are the first two blocks; goroutine creation stacks follow
		parts := regexp.MustCompile(`(?m)^(Previous )?(Write|Read|Atomic write|Atomic read|read|write) at 0x[0-9a-f]+ by .*:$`).Split(rep, -1)
		if len(parts) < 3 {
			continue
		}
		stacks := []string{parts[1], parts[2]}
		// cut the second stack at the goroutine creation section
		if i := strings.Index(stacks[1], "\nGoroutine "); i >= 0 {
			stacks[1] = stacks[1][:i]
		}
		var tops []string
		ok := true
		for _, st := range stacks {
			top := ""
			for _, m := range frameRe.FindAllStringSubmatch(st, -1) {
				fn, file := m[1], m[2]
				if !strings.Contains(fn, "github.com/go-task/task/v3") {
					continue
				}
				if strings.Contains(file, "_test.go") || strings.Contains(fn, "/internal/verifsim") || strings.Contains(fn, "task_test.") {
					continue
				}
				top = fn[strings.LastIndex(fn, "/")+1:] + "@" + filepath.Base(file)
				break
			}
			if top == "" {
				ok = false
			}
			tops = append(tops, top)
		}
		if !ok {
			continue
		}
		sort.Strings(tops)
		out = append(out, raceReport{Sig: strings.Join(tops, "<->"), Text: rep})
	}
	return out
}

func runX(t *testing.T, ch *vs.Choices, prop, tier string, render bool) *vs.RunOut {
	out := &vs.RunOut{Reach: map[string]int{}}
	b := gBias{MaxTasks: 6, PFail: 4, PIgnore: 10, PDedup: 40, PDefer: 8, PCall: 30, PLoop: 30, PGuard: 0, PDeps: 55, Parallel: true,
		Concs: []int{0, 0, 2, 3}, Outputs: []string{"", "group", "prefixed"}, MaxInst: 50, FanIn: true, Matrix: true, DynVars: true, Wildcards: true}
	if tier == "thorough" {
		b.MaxTasks, b.MaxInst = 9, 80
	}
	p := genG(ch, b)
	p.Parallel = len(p.Roots) > 1
	listFirst := ch.Bool(1, 3)
	yaml := p.YAML()
	out.Shape = vs.HashString(yaml + fmt.Sprint(p.Config()))
	out.Strategy = "batch-release"
	dir, err := newRunDir()
	if err != nil {
		out.HarnessError = err.Error()
		return out
	}
	defer os.RemoveAll(dir)
	for name, content := range p.Files() {
		full := filepath.Join(dir, name)
		_ = os.MkdirAll(filepath.Dir(full), 0o755)
		if err := os.WriteFile(full, []byte(content), 0o644); err != nil {
			out.HarnessError = err.Error()
			return out
		}
	}
	stdinPath := filepath.Join(dir, ".stdin")
	_ = os.WriteFile(stdinPath, nil, 0o644)
	stdin, _ := os.Open(stdinPath)
	defer stdin.Close()
	reps := 1
	if vs.Cfg("VERIF_REPLAY") != "" {
		reps = 40 // a replay repeats the case: the runtime's interleaving between batch releases is not ours
	}
	_ = readNewRaceReports() // anything written before this run does not belong to it
	var reports []raceReport
	maxBatch := 0
	for rep := 0; rep < reps && len(reports) == 0; rep++ {
		stdout := newGateWriter(true)
		stderr := newGateWriter(false)
		done := make(chan error, 1)
		ctx, cancel := context.WithTimeout(context.Background(), 20*time.Second)
		go func() {
			e := task.NewExecutor(task.WithDir(dir), task.WithStdin(stdin), task.WithStdout(stdout), task.WithStderr(stderr),
				task.WithConcurrency(p.Conc), task.WithParallel(p.Parallel), task.WithVersionCheck(true))
			if err := e.Setup(); err != nil {
				done <- fmt.Errorf("setup: %w", err)
				return
			}
			if listFirst {
				// the listing modes compile every task in its own goroutine
				if _, err := e.ListTasks(task.ListOptions{ListAllTasks: true, FormatTaskListAsJSON: true}); err != nil {
					done <- fmt.Errorf("setup: list: %w", err)
					return
				}
			}
			var calls []*task.Call
			for i, r := range p.Roots {
				v := ast.NewVars()
				if effRun(p, p.Tasks[r.Target]) == "always" {
					v.Set("P", ast.Var{Value: "r" + strconv.Itoa(i)})
				}
				if r.HasV {
					v.Set("V", ast.Var{Value: r.V})
				}
				calls = append(calls, &task.Call{Task: p.refNameA(-1, r.Target, r.Alias), Vars: v})
			}
			done <- e.Run(ctx, calls...)
		}()
		finished := false
		var runErr error
		for !finished {
			select {
			case runErr = <-done:
				finished = true
			case <-time.After(150 * time.Microsecond):
				if n := stdout.release(); n > maxBatch {
					maxBatch = n
				}
			}
		}
		stdout.close()
		cancel()
		if runErr != nil && strings.HasPrefix(runErr.Error(), "setup:") {
			out.HarnessError = runErr.Error() + "\n" + yaml
			return out
		}
		if ctx.Err() == context.DeadlineExceeded {
			out.Inconclusive = "timeout"
		}
		reports = append(reports, parseRaces(readNewRaceReports())...)
	}
	if maxBatch > 1 {
		out.Hit("batch_release_of_several_commands")
		out.NonTrivial = true
	}
	out.Reach["max_batch"] = maxBatch
	out.Hash = vs.HashString(fmt.Sprint(maxBatch)) ^ out.Shape
	seen := map[string]bool{}
	for _, r := range reports {
		if seen[r.Sig] {
			continue
		}
		seen[r.Sig] = true
		out.Violate("C18", "race|"+r.Sig, "data race between go-task frames:\n%s", clip(r.Text, 3000))
	}
	if render {
		out.Rendered = map[string]any{"files": p.Files(), "config": p.Config(), "strategy": out.Strategy}
	}
	return out
}
