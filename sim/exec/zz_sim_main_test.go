package task_test

import (
	"os"
	"os/signal"
	"syscall"
	"testing"

	vs "github.com/go-task/task/v3/internal/verifsim"
)

// TestVerifSim is the single entry point of the exec-sim engine binary (see /verif/bin/verif).
func TestVerifSim(t *testing.T) {
	// os/signal's runtime machinery must not be created inside a bubble (a changed tree may reach code that
	// registers a signal handler, e.g. watch mode)
	sigc := make(chan os.Signal, 1)
	signal.Notify(sigc, syscall.SIGUSR1)
	signal.Stop(sigc)
	switch os.Getenv("VERIF_FAMILY") {
	case "":
		t.Skip("VERIF_FAMILY not set")
	case "G":
		vs.WorkerMain(t, "exec-sim", "G", runG)
	case "I":
		vs.WorkerMain(t, "exec-sim", "I", runI)
	case "M":
		vs.WorkerMain(t, "exec-sim", "M", runM)
	case "Y":
		vs.WorkerMain(t, "exec-sim", "Y", runY)
	case "X":
		vs.WorkerMain(t, "race-sim", "X", runX)
	case "R":
		vs.WorkerMain(t, "exec-sim", "R", runR)
	case "O":
		vs.WorkerMain(t, "exec-sim", "O", runO)
	default:
		t.Fatalf("unknown family %q", os.Getenv("VERIF_FAMILY"))
	}
}
