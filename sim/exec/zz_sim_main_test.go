package task_test

import (
	"os"
	"testing"

	vs "github.com/go-task/task/v3/internal/verifsim"
)

// TestVerifSim is the single entry point of the exec-sim engine binary (see /verif/bin/verif).
func TestVerifSim(t *testing.T) {
	switch os.Getenv("VERIF_FAMILY") {
	case "":
		t.Skip("VERIF_FAMILY not set")
	case "G":
		vs.WorkerMain(t, "exec-sim", "G", runG)
	case "I":
		vs.WorkerMain(t, "exec-sim", "I", runI)
	case "M":
		vs.WorkerMain(t, "exec-sim", "M", runM)
	case "Y":
		vs.WorkerMain(t, "exec-sim", "Y", runY)
	case "X":
		vs.WorkerMain(t, "race-sim", "X", runX)
	case "R":
		vs.WorkerMain(t, "exec-sim", "R", runR)
	case "O":
		vs.WorkerMain(t, "exec-sim", "O", runO)
	default:
		t.Fatalf("unknown family %q", os.Getenv("VERIF_FAMILY"))
	}
}
