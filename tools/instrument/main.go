// instrument rewrites Go source files of go-task/task for deterministic simulation.
//
// It is a purely textual splice driven by go/ast positions: the original bytes,
// comments, directives and line numbers are preserved; only short fragments are
// inserted on existing lines.
//
//	yield mode  (files named in -yield): `__vs.Yield(site);` before every statement
//	sync  mode  (every other non-test file of the module):
//	    x.Go(fn)        -> x.Go(__vs.Wrap(site, fn))
//	    go f(x)         -> go __vs.Wrap(site, func() { f(x) })()
//	    x.Wait()        -> __vs.BlockErr(site, func() error { return x.Wait() })   (value ctx)
//	                       __vs.Block0(site, func() { x.Wait() })                 (statement ctx)
//	    <-x             -> __vs.Block0(site, func() { <-x }) / __vs.Recv(site, x) / __vs.Recv2(site, x)
//	    c <- v          -> __vs.Block0(site, func() { c <- v })
//	    time.Sleep(d)   -> __vs.Block0(site, func() { time.Sleep(d) })
//	    select {...}    -> tok := __vs.BlockBegin(site); select { case ...: __vs.BlockEnd(tok); ... }
//	    x.Lock()/RLock  -> x.Lock(); __vs.Locked()
//	    x.Unlock()/...  -> x.Unlock(); __vs.Unlocked()
//	    defer x.Unlock()-> defer __vs.Unlocked(); defer x.Unlock()
//
// yield-mode files get the sync-mode rewrites too.
//
// Output: instrumented copies under -out, an overlay JSON (go build -overlay) and a
// generated Go file with the site table for package verifsim.
package main

import (
	"bufio"
	"bytes"
	"encoding/json"
	"flag"
	"fmt"
	"go/ast"
	"go/build"
	"go/importer"
	"go/parser"
	"go/token"
	"go/types"
	"io"
	"os"
	"os/exec"
	"path/filepath"
	"sort"
	"strings"
)

type edit struct {
	start, end int // byte offsets; start==end for pure insertion
	text       string
	suffix     bool // suffix insertions sort before prefix insertions at the same offset
	seq        int
}

type fileRewriter struct {
	fset    *token.FileSet
	file    *token.File
	src     []byte
	rel     string
	yield   bool
	edits   []edit
	seq     int
	sites   *[]string
	texts   *[]string
	curFunc string
	changed bool
	tokN    int
	info    *types.Info
	mapN    int
	nMaps   *int
}

// knobs: names of integer constants the simulator may vary per run
var knobs = map[string]bool{}

func (r *fileRewriter) off(p token.Pos) int { return r.file.Offset(p) }

func (r *fileRewriter) site(p token.Pos, kind string) int {
	pos := r.fset.Position(p)
	id := len(*r.sites)
	*r.sites = append(*r.sites, fmt.Sprintf("%s@%s:%d", kind, r.rel, pos.Line))
	// function name and the first source line of the statement: lets the harness address a scheduling
	// point by what the code does there instead of by a line number that moves with every edit
	off := r.file.Offset(p)
	end := off
	for end < len(r.src) && r.src[end] != '\n' {
		end++
	}
	txt := strings.TrimSpace(string(r.src[off:end]))
	if len(txt) > 90 {
		txt = txt[:90]
	}
	*r.texts = append(*r.texts, r.curFunc+": "+txt)
	return id
}

func (r *fileRewriter) insPrefix(p token.Pos, text string) {
	r.seq++
	r.edits = append(r.edits, edit{start: r.off(p), end: r.off(p), text: text, seq: r.seq})
	r.changed = true
}

func (r *fileRewriter) insSuffix(p token.Pos, text string) {
	r.seq++
	r.edits = append(r.edits, edit{start: r.off(p), end: r.off(p), text: text, suffix: true, seq: r.seq})
	r.changed = true
}

func (r *fileRewriter) replace(p, q token.Pos, text string) {
	r.seq++
	r.edits = append(r.edits, edit{start: r.off(p), end: r.off(q), text: text, seq: r.seq})
	r.changed = true
}

func isMethodCall(e ast.Expr, names ...string) (*ast.CallExpr, string, bool) {
	c, ok := e.(*ast.CallExpr)
	if !ok {
		return nil, "", false
	}
	s, ok := c.Fun.(*ast.SelectorExpr)
	if !ok {
		return nil, "", false
	}
	for _, n := range names {
		if s.Sel.Name == n {
			return c, n, true
		}
	}
	return nil, "", false
}

func isPkgCall(e ast.Expr, pkg, name string) bool {
	c, ok := e.(*ast.CallExpr)
	if !ok {
		return false
	}
	s, ok := c.Fun.(*ast.SelectorExpr)
	if !ok {
		return false
	}
	id, ok := s.X.(*ast.Ident)
	return ok && id.Name == pkg && s.Sel.Name == name
}

// stmtList handles one statement list (block body, case body, comm body).
func (r *fileRewriter) stmtList(list []ast.Stmt) {
	for _, s := range list {
		r.stmt(s, true)
	}
}

// stmt processes a statement. inList says whether a statement may be inserted in front of it.
func (r *fileRewriter) stmt(s ast.Stmt, inList bool) {
	if s == nil {
		return
	}
	if inList && r.yield {
		if _, isEmpty := s.(*ast.EmptyStmt); !isEmpty {
			r.insPrefix(s.Pos(), fmt.Sprintf("__vs.Yield(%d); ", r.site(s.Pos(), "y")))
		}
	}
	switch n := s.(type) {
	case *ast.LabeledStmt:
		// the label stays attached to the inner statement; prefixes were placed before the label
		r.stmtInner(n.Stmt, s.Pos())
	default:
		r.stmtInner(s, s.Pos())
	}
}

// stmtInner: outerPos is where statement-level prefixes must be inserted (before a label, if any).
func (r *fileRewriter) stmtInner(s ast.Stmt, outerPos token.Pos) {
	switch n := s.(type) {
	case *ast.ExprStmt:
		// statement-context blocking primitives
		if u, ok := n.X.(*ast.UnaryExpr); ok && u.Op == token.ARROW {
			r.expr(u.X)
			id := r.site(n.Pos(), "recv")
			r.insPrefix(n.Pos(), fmt.Sprintf("__vs.Block0(%d, func() { ", id))
			r.insSuffix(n.End(), " })")
			return
		}
		if c, _, ok := isMethodCall(n.X, "Wait"); ok && len(c.Args) == 0 {
			r.exprChildrenOfCall(c)
			id := r.site(n.Pos(), "wait")
			r.insPrefix(n.Pos(), fmt.Sprintf("__vs.Block0(%d, func() { ", id))
			r.insSuffix(n.End(), " })")
			return
		}
		if isPkgCall(n.X, "time", "Sleep") {
			id := r.site(n.Pos(), "sleep")
			r.insPrefix(n.Pos(), fmt.Sprintf("__vs.Block0(%d, func() { ", id))
			r.insSuffix(n.End(), " })")
			return
		}
		if c, name, ok := isMethodCall(n.X, "Lock", "RLock", "Unlock", "RUnlock"); ok && len(c.Args) == 0 {
			if name == "Lock" || name == "RLock" {
				// x.Lock() -> __vs.LockVia(site, x.TryLock, x.Lock): a contended mutex makes the goroutine wait in the
				// simulator (sync.Mutex is not durably blocking for synctest), so a deadlock on a mutex is a
				// verdict instead of a hung bubble
				sel := c.Fun.(*ast.SelectorExpr)
				recv := string(r.src[r.off(sel.X.Pos()):r.off(sel.X.End())])
				try := "TryLock"
				if name == "RLock" {
					try = "TryRLock"
				}
				id := r.site(n.Pos(), "lock")
				r.replace(n.Pos(), n.End(), fmt.Sprintf("__vs.LockVia(%d, %s.%s, %s.%s)", id, recv, try, recv, name))
			} else {
				r.exprChildrenOfCall(c)
				r.insSuffix(n.End(), "; __vs.Unlocked()")
			}
			return
		}
		r.expr(n.X)
	case *ast.SendStmt:
		r.expr(n.Chan)
		r.expr(n.Value)
		id := r.site(n.Pos(), "send")
		r.insPrefix(n.Pos(), fmt.Sprintf("__vs.Block0(%d, func() { ", id))
		r.insSuffix(n.End(), " })")
	case *ast.DeferStmt:
		if c, name, ok := isMethodCall(n.Call, "Unlock", "RUnlock"); ok && len(c.Args) == 0 {
			_ = name
			r.insPrefix(outerPos, "defer __vs.Unlocked(); ")
		}
		r.deferOrGoCall(n.Call)
	case *ast.GoStmt:
		// go f(x) -> go __vs.Wrap(site, func() { f(x) })()
		id := r.site(n.Pos(), "go")
		r.deferOrGoCall(n.Call)
		r.insPrefix(n.Call.Pos(), fmt.Sprintf("__vs.Wrap(%d, func() { ", id))
		r.insSuffix(n.Call.End(), " })()")
	case *ast.AssignStmt:
		// v, ok := <-ch
		if len(n.Rhs) == 1 && len(n.Lhs) == 2 {
			if u, ok := n.Rhs[0].(*ast.UnaryExpr); ok && u.Op == token.ARROW {
				for _, l := range n.Lhs {
					r.expr(l)
				}
				r.expr(u.X)
				id := r.site(u.Pos(), "recv")
				r.replace(u.Pos(), u.Pos()+2, fmt.Sprintf("__vs.Recv2(%d, ", id))
				r.insSuffix(u.End(), ")")
				return
			}
		}
		for _, l := range n.Lhs {
			r.expr(l)
		}
		for _, x := range n.Rhs {
			r.expr(x)
		}
	case *ast.BlockStmt:
		r.stmtList(n.List)
	case *ast.IfStmt:
		r.stmt(n.Init, false)
		r.expr(n.Cond)
		r.stmtList(n.Body.List)
		if n.Else != nil {
			switch e := n.Else.(type) {
			case *ast.BlockStmt:
				r.stmtList(e.List)
			default:
				r.stmt(e, false)
			}
		}
	case *ast.ForStmt:
		r.stmt(n.Init, false)
		if n.Cond != nil {
			r.expr(n.Cond)
		}
		r.stmt(n.Post, false)
		r.stmtList(n.Body.List)
	case *ast.RangeStmt:
		if r.rangeOverMap(n, outerPos) {
			r.stmtList(n.Body.List)
			return
		}
		r.expr(n.X)
		r.stmtList(n.Body.List)
	case *ast.SwitchStmt:
		r.stmt(n.Init, false)
		if n.Tag != nil {
			r.expr(n.Tag)
		}
		for _, c := range n.Body.List {
			cc := c.(*ast.CaseClause)
			for _, x := range cc.List {
				r.expr(x)
			}
			r.stmtList(cc.Body)
		}
	case *ast.TypeSwitchStmt:
		r.stmt(n.Init, false)
		r.stmt(n.Assign, false)
		for _, c := range n.Body.List {
			cc := c.(*ast.CaseClause)
			r.stmtList(cc.Body)
		}
	case *ast.SelectStmt:
		r.tokN++
		tok := fmt.Sprintf("__vsTok%d", r.tokN)
		id := r.site(n.Pos(), "select")
		r.insPrefix(outerPos, fmt.Sprintf("%s := __vs.BlockBegin(%d); ", tok, id))
		for _, c := range n.Body.List {
			cc := c.(*ast.CommClause)
			r.insSuffix(cc.Colon+1, fmt.Sprintf(" __vs.BlockEnd(%s);", tok))
			r.stmtList(cc.Body)
		}
	case *ast.ReturnStmt:
		for _, x := range n.Results {
			r.expr(x)
		}
	case *ast.DeclStmt:
		if gd, ok := n.Decl.(*ast.GenDecl); ok {
			for _, sp := range gd.Specs {
				if vs, ok := sp.(*ast.ValueSpec); ok {
					for _, x := range vs.Values {
						r.expr(x)
					}
				}
			}
		}
	case *ast.IncDecStmt:
		r.expr(n.X)
	case *ast.LabeledStmt:
		r.stmtInner(n.Stmt, outerPos)
	}
}

// rangeOverMap turns `for k, v := range m {` (m a map with ordered keys) into an iteration whose order is
// chosen by the simulator: Go's per-iteration random map order is a source of nondeterminism the
// simulator must own, otherwise the same seed does not give the same execution.
//
//	__vsMn := m; for _, __vsKn := range __vs.MapOrder(site, __vsMn) { k, v := __vsKn, __vsMn[__vsKn]; ...
func (r *fileRewriter) rangeOverMap(n *ast.RangeStmt, outerPos token.Pos) bool {
	if r.info == nil {
		return false
	}
	tv, ok := r.info.Types[n.X]
	if !ok || tv.Type == nil {
		return false
	}
	mt, ok := tv.Type.Underlying().(*types.Map)
	if !ok {
		return false
	}
	kb, ok := mt.Key().Underlying().(*types.Basic)
	if !ok || kb.Info()&(types.IsOrdered) == 0 {
		return false
	}
	name := func(e ast.Expr) string {
		if e == nil {
			return ""
		}
		if id, ok := e.(*ast.Ident); ok {
			if id.Name == "_" {
				return ""
			}
			return id.Name
		}
		return "?"
	}
	k, v := name(n.Key), name(n.Value)
	if k == "?" || v == "?" {
		return false // assignment to something that is not a plain identifier
	}
	r.mapN++
	*r.nMaps++
	mv := fmt.Sprintf("__vsM%d", r.mapN)
	kv := fmt.Sprintf("__vsK%d", r.mapN)
	xsrc := string(r.src[r.off(n.X.Pos()):r.off(n.X.End())])
	id := r.site(n.Pos(), "maprange")
	r.insPrefix(outerPos, fmt.Sprintf("%s := %s; ", mv, xsrc))
	r.replace(n.For, n.Body.Lbrace+1, fmt.Sprintf("for _, %s := range __vs.MapOrder(%d, %s) {", kv, id, mv))
	tok := ":="
	if n.Tok == token.ASSIGN {
		tok = "="
	}
	var lhs, rhs []string
	if k != "" {
		lhs, rhs = append(lhs, k), append(rhs, kv)
	}
	if v != "" {
		lhs, rhs = append(lhs, v), append(rhs, mv+"["+kv+"]")
	}
	body := fmt.Sprintf(" if _, __vsOk := %s[%s]; !__vsOk { continue };", mv, kv)
	if len(lhs) > 0 {
		body += fmt.Sprintf(" %s %s %s;", strings.Join(lhs, ", "), tok, strings.Join(rhs, ", "))
	}
	r.insSuffix(n.Body.Lbrace+1, body)
	return true
}

// exportLookup maps import paths to compiler export data files (go list -export).
func exportLookup(repo, goBin, modfile string) (func(path string) (io.ReadCloser, error), error) {
	args := []string{"list", "-export", "-deps", "-f", "{{.ImportPath}}\t{{.Export}}"}
	if modfile != "" {
		args = append(args, "-modfile="+modfile)
	}
	args = append(args, "./...")
	cmd := exec.Command(goBin, args...)
	cmd.Dir = repo
	var stderr bytes.Buffer
	cmd.Stderr = &stderr
	out, err := cmd.Output()
	if err != nil {
		return nil, fmt.Errorf("go list -export: %v\n%s", err, stderr.String())
	}
	m := map[string]string{}
	sc := bufio.NewScanner(bytes.NewReader(out))
	sc.Buffer(make([]byte, 1<<20), 1<<24)
	for sc.Scan() {
		f := strings.SplitN(sc.Text(), "\t", 2)
		if len(f) == 2 && f[1] != "" {
			m[f[0]] = f[1]
		}
	}
	return func(path string) (io.ReadCloser, error) {
		p, ok := m[path]
		if !ok {
			return nil, fmt.Errorf("no export data for %s", path)
		}
		return os.Open(p)
	}, nil
}

func (r *fileRewriter) deferOrGoCall(c *ast.CallExpr) {
	// do not wrap the call itself (defer/go need a call expression); visit its parts
	r.exprChildrenOfCall(c)
}

func (r *fileRewriter) exprChildrenOfCall(c *ast.CallExpr) {
	if fl, ok := c.Fun.(*ast.FuncLit); ok {
		r.stmtList(fl.Body.List)
	} else if s, ok := c.Fun.(*ast.SelectorExpr); ok {
		r.expr(s.X)
	} else {
		r.expr(c.Fun)
	}
	for _, a := range c.Args {
		r.expr(a)
	}
}

// expr walks an expression in value context.
func (r *fileRewriter) expr(e ast.Expr) {
	switch n := e.(type) {
	case nil:
		return
	case *ast.FuncLit:
		// a literal that is a single return statement is a comparator / predicate handed to library code
		// (sort, slices.ContainsFunc, ...): how often the library calls it may depend on the library's own
		// map iteration, so it gets no scheduling point of its own
		if len(n.Body.List) == 1 {
			if _, isRet := n.Body.List[0].(*ast.ReturnStmt); isRet {
				y := r.yield
				r.yield = false
				r.stmtList(n.Body.List)
				r.yield = y
				return
			}
		}
		r.stmtList(n.Body.List)
	case *ast.CallExpr:
		// x.Go(fn)
		if c, _, ok := isMethodCall(n, "Go"); ok && len(c.Args) == 1 {
			if s, ok := c.Fun.(*ast.SelectorExpr); ok {
				r.expr(s.X)
			}
			id := r.site(n.Pos(), "spawn")
			r.insPrefix(c.Args[0].Pos(), fmt.Sprintf("__vs.Wrap(%d, ", id))
			r.expr(c.Args[0])
			r.insSuffix(c.Args[0].End(), ")")
			return
		}
		// x.Wait() in value context
		if c, _, ok := isMethodCall(n, "Wait"); ok && len(c.Args) == 0 {
			r.exprChildrenOfCall(c)
			id := r.site(n.Pos(), "wait")
			r.insPrefix(n.Pos(), fmt.Sprintf("__vs.BlockErr(%d, func() error { return ", id))
			r.insSuffix(n.End(), " })")
			return
		}
		r.exprChildrenOfCall(n)
	case *ast.Ident:
		// tuning knob: a use of a named integer constant becomes T(__vs.KnobInt("Name", Name)), T being the type the
		// constant has at this use (the simulator may substitute another value per run)
		if knobs[n.Name] && r.info != nil {
			if tv, ok := r.info.Types[n]; ok && tv.Value != nil {
				if bt, ok := tv.Type.Underlying().(*types.Basic); ok && bt.Info()&types.IsInteger != 0 {
					tn := bt.Name()
					if bt.Kind() == types.UntypedInt {
						tn = "int"
					}
					r.insPrefix(n.Pos(), fmt.Sprintf("%s(__vs.KnobInt(%q, ", tn, n.Name))
					r.insSuffix(n.End(), "))")
				}
			}
		}
	case *ast.UnaryExpr:
		if n.Op == token.ARROW {
			r.expr(n.X)
			id := r.site(n.Pos(), "recv")
			r.replace(n.Pos(), n.Pos()+2, fmt.Sprintf("__vs.Recv(%d, ", id))
			r.insSuffix(n.End(), ")")
			return
		}
		r.expr(n.X)
	case *ast.BinaryExpr:
		r.expr(n.X)
		r.expr(n.Y)
	case *ast.ParenExpr:
		r.expr(n.X)
	case *ast.SelectorExpr:
		r.expr(n.X)
	case *ast.IndexExpr:
		r.expr(n.X)
		r.expr(n.Index)
	case *ast.SliceExpr:
		r.expr(n.X)
		r.expr(n.Low)
		r.expr(n.High)
		r.expr(n.Max)
	case *ast.StarExpr:
		r.expr(n.X)
	case *ast.TypeAssertExpr:
		r.expr(n.X)
	case *ast.KeyValueExpr:
		r.expr(n.Key)
		r.expr(n.Value)
	case *ast.CompositeLit:
		for _, x := range n.Elts {
			r.expr(x)
		}
	}
}

func (r *fileRewriter) apply() []byte {
	sort.SliceStable(r.edits, func(i, j int) bool {
		a, b := r.edits[i], r.edits[j]
		if a.start != b.start {
			return a.start < b.start
		}
		if a.suffix != b.suffix {
			return a.suffix
		}
		return a.seq < b.seq
	})
	var out []byte
	pos := 0
	for _, e := range r.edits {
		if e.start < pos {
			// overlapping replace; should not happen
			fmt.Fprintf(os.Stderr, "instrument: overlapping edit in %s at %d\n", r.rel, e.start)
			os.Exit(2)
		}
		out = append(out, r.src[pos:e.start]...)
		out = append(out, e.text...)
		pos = e.end
	}
	out = append(out, r.src[pos:]...)
	return out
}

func main() {
	repo := flag.String("repo", "/repo", "module root")
	out := flag.String("out", "", "output directory")
	yieldList := flag.String("yield", "", "comma separated module-relative files (or dir/ prefixes) that get statement yields")
	skipList := flag.String("skip", "watch.go,signals.go,cmd/sleepit/,internal/fsnotifyext/,website/,testdata/,internal/verifsim/,bin/,completion/", "comma separated files/dir prefixes never touched")
	modpath := flag.String("mod", "github.com/go-task/task/v3", "module path")
	goBin := flag.String("go", "", "go binary used for `go list -export` (enables map-range rewriting)")
	modfile := flag.String("modfile", "", "alternative go.mod for go list")
	knobList := flag.String("knob", "", "comma separated names of integer constants whose uses become __vs.KnobInt calls")
	flag.Parse()
	for _, k := range strings.Split(*knobList, ",") {
		if k != "" {
			knobs[k] = true
		}
	}
	if *out == "" {
		fmt.Fprintln(os.Stderr, "instrument: -out required")
		os.Exit(2)
	}
	yield := strings.Split(*yieldList, ",")
	skip := strings.Split(*skipList, ",")
	match := func(rel string, pats []string) bool {
		for _, p := range pats {
			if p == "" {
				continue
			}
			if strings.HasSuffix(p, "/") {
				if strings.HasPrefix(rel, p) {
					return true
				}
			} else if rel == p {
				return true
			}
		}
		return false
	}

	var sites []string
	var texts []string
	overlay := map[string]string{}
	var files []string
	err := filepath.Walk(*repo, func(p string, info os.FileInfo, err error) error {
		if err != nil {
			return err
		}
		rel, _ := filepath.Rel(*repo, p)
		if info.IsDir() {
			if rel != "." && (strings.HasPrefix(info.Name(), ".") || info.Name() == "node_modules" || info.Name() == "testdata" || info.Name() == "website") {
				return filepath.SkipDir
			}
			return nil
		}
		if !strings.HasSuffix(p, ".go") || strings.HasSuffix(p, "_test.go") {
			return nil
		}
		if match(rel, skip) {
			return nil
		}
		files = append(files, rel)
		return nil
	})
	if err != nil {
		fmt.Fprintln(os.Stderr, "instrument:", err)
		os.Exit(2)
	}
	sort.Strings(files)
	ctx := build.Default
	ctx.GOOS = "linux"
	ctx.GOARCH = "amd64"
	nYieldFiles := 0
	nMaps := 0
	// group files by package directory, parse, type-check (for map ranges), rewrite
	var imp types.Importer
	if *goBin != "" {
		lookup, err := exportLookup(*repo, *goBin, *modfile)
		if err != nil {
			fmt.Fprintln(os.Stderr, "instrument:", err)
			os.Exit(2)
		}
		imp = importer.ForCompiler(token.NewFileSet(), "gc", lookup)
	}
	byDir := map[string][]string{}
	var dirs []string
	for _, rel := range files {
		d := filepath.Dir(rel)
		if _, ok := byDir[d]; !ok {
			dirs = append(dirs, d)
		}
		byDir[d] = append(byDir[d], rel)
	}
	sort.Strings(dirs)
	for _, d := range dirs {
		fset := token.NewFileSet()
		type parsed struct {
			rel string
			src []byte
			f   *ast.File
		}
		var ps []parsed
		// every buildable non-test file of the directory takes part in type checking
		ents, _ := os.ReadDir(filepath.Join(*repo, d))
		var all []*ast.File
		for _, e := range ents {
			name := e.Name()
			if e.IsDir() || !strings.HasSuffix(name, ".go") || strings.HasSuffix(name, "_test.go") {
				continue
			}
			abs := filepath.Join(*repo, d, name)
			ok, err := ctx.MatchFile(filepath.Dir(abs), name)
			if err != nil || !ok {
				continue
			}
			src, err := os.ReadFile(abs)
			if err != nil {
				fmt.Fprintln(os.Stderr, "instrument:", err)
				os.Exit(2)
			}
			f, err := parser.ParseFile(fset, abs, src, parser.ParseComments)
			if err != nil {
				fmt.Fprintln(os.Stderr, "instrument: parse:", err)
				os.Exit(2)
			}
			all = append(all, f)
			rel := filepath.Join(d, name)
			if d == "." {
				rel = name
			}
			for _, want := range byDir[d] {
				if want == rel {
					ps = append(ps, parsed{rel, src, f})
				}
			}
		}
		var info *types.Info
		if imp != nil && len(all) > 0 {
			info = &types.Info{Types: map[ast.Expr]types.TypeAndValue{}}
			conf := types.Config{Importer: imp, Error: func(error) {}}
			pkgPath := *modpath
			if d != "." {
				pkgPath += "/" + filepath.ToSlash(d)
			}
			_, _ = conf.Check(pkgPath, fset, all, info)
		}
		for _, pf := range ps {
			rel, src, f := pf.rel, pf.src, pf.f
			abs := filepath.Join(*repo, rel)
			r := &fileRewriter{fset: fset, file: fset.File(f.Pos()), src: src, rel: rel, yield: match(rel, yield), sites: &sites, texts: &texts, info: info, nMaps: &nMaps}
			if r.yield {
				nYieldFiles++
			}
			for _, dcl := range f.Decls {
				switch n := dcl.(type) {
				case *ast.FuncDecl:
					if n.Body != nil {
						r.curFunc = n.Name.Name
						r.stmtList(n.Body.List)
						r.curFunc = ""
					}
				case *ast.GenDecl:
					for _, sp := range n.Specs {
						if vs, ok := sp.(*ast.ValueSpec); ok {
							for _, x := range vs.Values {
								r.expr(x)
							}
						}
					}
				}
			}
			if !r.changed {
				continue
			}
			// add the import right after the package clause (same line, keeps numbering)
			imps := fmt.Sprintf("; import __vs %q", *modpath+"/internal/verifsim")
			r.seq++
			r.edits = append(r.edits, edit{start: r.off(f.Name.End()), end: r.off(f.Name.End()), text: imps, suffix: true, seq: r.seq})
			res := r.apply()
			dst := filepath.Join(*out, "src", rel)
			if err := os.MkdirAll(filepath.Dir(dst), 0o755); err != nil {
				fmt.Fprintln(os.Stderr, "instrument:", err)
				os.Exit(2)
			}
			if err := os.WriteFile(dst, res, 0o644); err != nil {
				fmt.Fprintln(os.Stderr, "instrument:", err)
				os.Exit(2)
			}
			overlay[abs] = dst
		}
	}
	// site table
	var sb strings.Builder
	sb.WriteString("// Code generated by /verif/tools/instrument. DO NOT EDIT.\n\npackage verifsim\n\nfunc init() {\n\tSiteNames = []string{\n")
	for _, s := range sites {
		fmt.Fprintf(&sb, "\t\t%q,\n", s)
	}
	sb.WriteString("\t}\n\tSiteTexts = []string{\n")
	for _, s := range texts {
		fmt.Fprintf(&sb, "\t\t%q,\n", s)
	}
	sb.WriteString("\t}\n}\n")
	if err := os.MkdirAll(*out, 0o755); err != nil {
		fmt.Fprintln(os.Stderr, "instrument:", err)
		os.Exit(2)
	}
	if err := os.WriteFile(filepath.Join(*out, "sites_gen.go"), []byte(sb.String()), 0o644); err != nil {
		fmt.Fprintln(os.Stderr, "instrument:", err)
		os.Exit(2)
	}
	ob, _ := json.MarshalIndent(map[string]any{"Replace": overlay}, "", " ")
	if err := os.WriteFile(filepath.Join(*out, "overlay_src.json"), ob, 0o644); err != nil {
		fmt.Fprintln(os.Stderr, "instrument:", err)
		os.Exit(2)
	}
	fmt.Printf("instrument: %d files rewritten (%d with yields), %d sites, %d map ranges owned by the simulator\n", len(overlay), nYieldFiles, len(sites), nMaps)
}
